#!/usr/bin/env python3
"""Regenerates MANIFEST.json from the per-property table below and the specs under harness/."""
import json, os
V = os.path.dirname(os.path.abspath(__file__))
props = [json.loads(l) for l in open(os.path.join(V, 'properties.jsonl'))]
TECH = "bounded symbolic execution of the real Go SSA (gosym) + SMT (z3 5.1.0, cvc5 1.0.3 cross-check), counterexamples replayed natively"
claimed = {
 "C04": ("For every byte string up to the bound, every chunking/stall/error placement of the underlying reader and every buffer size in range, the real ImmediateReadAhead/BufferedReadAhead.Scan token sequence equals the line-splitting specification, earlier tokens are never overwritten, and a non-EOF error is reported exactly once after all bytes were delivered. The solver covers all byte values; the bound is on lengths.",
         "bounds: stream <= 4 (quick) / 6 (thorough) bytes, buffers 1..3 / 1..5; trusted: go/ssa, gosym interpreter, bytes.IndexByte model, solvers"),
 "C11": ("Real kf* stages of the scalar helper families (bucket, bucketrange, clamp, sumi..mini, eq/neq/not/and/or/if/unless/switch/coalesce, lt..gte, isint/isnum, len/prefix/suffix/like/substr/upper/lower/tab, csv, sumf..divf) and humanizeInt executed symbolically against reference semantics written in the harness; integer arguments range over all of int64 through the opaque IntStr rendering (strconv round-trip contract), floats over all of float64 through FloatStr.",
         "bounds in evidence (strings <=2-4 bytes, folds of 2..3 operands, hi |v|<=1e6 + int64 extremes); float-valued helpers (round, percent, sqrt, pow, log*, hf, bytesize, downscale), format, lookup/load/path helpers outside"),
 "C12": ("Real dissect CompileEx/FindSubmatchIndex executed symbolically on structured patterns with symbolic literal bytes and symbolic lines, compared with the specification executed literally in the harness; ignore-case monotonicity over all byte values and ASCII equivalence; results held across pool refills; compile errors.",
         "bounds in evidence (<=2-3 tokens, literals <=2 bytes, lines <=4-6 bytes); patterns with a stray % are outside; trusted: strings.Index and unicode.ToLower models"),
 "C16": ("Real minijson escape/WriteString/WriteInferred/isNumeric and SliceSpaceExpressionContext.json executed on symbolic strings; output run through a strict RFC 8259 recogniser/decoder written in the harness; determinism under every forked map iteration order.",
         "bounds in evidence (strings <=2-5 bytes over ASCII / representative alphabets; <=3 groups); non-UTF-8 and non-ASCII group text outside; cmd/expressions.go emulation outside"),
 "C17": ("Real kf@* stages and stringSplitter.Splitter executed on symbolic NUL-free element strings, symbolic delimiters and symbolic indices (full int64 through the opaque IntStr contract), against list semantics written in the harness; sub-expressions are recording stubs that check {0}/{1}/named-key binding.",
         "bounds in evidence (lists <=3 elements of <=1-2 bytes, delimiters 1..3 bytes); concurrent evaluation outside; the one-element list [\"\"] excluded (encoding ambiguity)"),
 "C08": ("Real kf* constructors and stages of every helper in stdlib.StandardFunctions that is not a thin wrapper over an opaque library, real KeyBuilder.Compile/BuildKey/optimize/splitTokenizedArguments and the context types, executed on symbolic templates and symbolic argument values (int64 renderings, arbitrary bytes, float renderings); every implicit run-time check (index, slice bounds, nil, divide, library panics of strings.Repeat) is a solver query; a panic on any path is a violation.",
         "bounds in evidence (arity <=2/3, templates <=4/5 bytes over a 12-byte alphabet, unrolling 6/8); memory/time exhaustion and the 11 library-backed helpers outside; float arithmetic abstracted (over-approximation)"),
 "C09": ("Real KeyBuilder.Compile/BuildKey/optimize and splitTokenizedArguments executed on symbolic text: escaped rendering of any string evaluates to the string; the splitter equals the documented splitting (reference tokenizer in the harness); trees printed with symbolic literals, blank runs and quoting evaluate as the tree dictates; unterminated/empty statements and unknown functions are reported exactly.",
         "bounds in evidence (strings <=4/5 characters over all ASCII bytes + one 2-byte rune, splitter inputs <=6/7 bytes, trees of depth 1/2); invalid UTF-8 and escapes inside statements outside"),
 "C10": ("Real kf* constructors (compile-time folding through EvalStaticStage, typed pre-parsing through evalTypedStage/mapTypedArgs), KeyBuilder.Compile with and without optimize(), kfTimeParse's live/delta handling and funcfile.LoadDefinitions/keyBuilderToFunction/lazySubContext executed symbolically: constant arguments give what the same values read from the match give; a stage reported constant has that value on every context; optimised == unoptimised; funcs-file functions == their body inline.",
         "bounds in evidence; library-backed helpers, constant-only parameters, concurrency outside; float arithmetic abstracted as uninterpreted functions"),
 "C19": ("Real stdmath tokenizer, parser (compileTokens/getNextExpr/getNextOp/opCodeOrder), simplify and the ops/uniOps closures executed on symbolic operands and formula texts: no operator panics for any operand, the compiled tree equals the parse under the documented order of operations, literals and bound variables are interchangeable, malformed text is rejected without a crash.",
         "bounds in evidence (formulas of 2..3/4 operands, texts <=4/5 bytes); float values of the operators not claimed"),
 "C07": ("Real MatchCounter, SubKeyCounter, TableAggregator (Sample/SampleValue/SampleItem, Items, SubKeys, totals, ComputeMinMax, Trim) and MatchNumerical/StatisticalAnalysis executed on symbolic sample histories and compared, after every prefix, with a straightforward fold written in the harness; increments range over all of int64 with wrap-around; Trim under every forked map iteration order; adjacent samples commute.",
         "bounds in evidence (histories of 1..3/4 samples over a 3-key alphabet); mean/standard deviation (float accumulation) and the accumulating group outside"),
 "C13": ("Real helpers.BuildSorter/parseSort/lookupSorter and the comparators they compose (ByName, ByNameSmart, ByContextualEx, ByDate, ValueSorterEx, ValueNilSorter, Reverse) executed on triples of pairwise distinct symbolic keys: the strict-total-order laws (asymmetric, total, transitive in every arrangement, same answer when asked again / after other pairs were compared) that make sort.Sort's result a function of the key set, plus the documented meaning of each mode and modifier; numeric keys go through the real strconv.ParseFloat executed symbolically and, separately, through ParseFloat abstracted to an arbitrary function; date keys through the real dateparse/time code executed by the engine; sorted item/row/column lists under every forked map iteration order.",
         "bounds in evidence (keys <=2/3 bytes, pools of calendar names and dates); sort.Sort trusted; one known finding (date sort with mixed layouts, see known_findings.json)"),
 "C14": ("Real termscaler.Scale (clamps for every int64 triple and scaler, degenerate ranges, the linear part on an integer window), Bucket/LengthVal and HeatWrite/SparkWrite/BarWrite for every float64 magnitude in [0,1] (exact floating point, cvc5), BarWriteStacked/barWriteRunes for arbitrary int64 segments (128-bit product/quotient contracts), TableWriter column alignment for cells with colour codes and multi-byte runes, and Heatmap/Spark/DataTable/HistoWriter/BarGraph driven as the commands drive them on symbolic tables with arbitrary int64 values and limits >= 0: no panic or non-termination, one cell per displayed column, '(n more)' counts, displayed numbers = aggregated numbers under the formatter, bars within their width.",
         "bounds in evidence; compositional: renderer harnesses take any in-range bucket/length (stubs), Scale in [0,1] over the full int64 range and monotonicity are NOT decided (floating point beyond the back ends; stated as outside); percentages and fmt text outside"),
 "C20": ("Real TermWriter.WriteForLine/goTo/writeAtCursor/Close, cursor.go escape builders, WriteLineNoWrap and VirtualTerm/BufferedTerm executed symbolically; the bytes written to os.Stdout are interpreted by a VT100-subset emulator written in the harness. One inductive step from an ARBITRARY writer state (cursor anywhere in the lines in use, any earlier screen contents) shows: the updated line holds exactly the new text (earlier longer text erased, colour codes taking no room), no other line changes, writer and terminal agree on the cursor, the last-line mark is the highest line written; Close parks the cursor below it, visible. Trimming: for every width and every line over ESC / printable ASCII / a two-byte rune the output is a prefix showing the first min(width, length) visible characters and not ending inside a completed colour sequence. Buffered writer prints the latest text of every line top to bottom.",
         "bounds in evidence (3/5 lines, width 3/4, trim lines <=4/6 characters); the step is inductive over histories of any length within those sizes; VT100 + cooked-mode NL assumed; wide runes, scrolling, resize outside"),
}
man = {
 "version": 1,
 "setup_cmd": "cd engine && GOFLAGS=-mod=mod GOPROXY=off GOSUMDB=off GOTOOLCHAIN=local go build -o ../bin/gosym ./cmd/gosym",
 "hooks": {"guard": "verif", "enable": "none needed: harnesses are injected in-package through go build / go/packages overlays; nothing is compiled into rare",
           "baseline_off_cmd": "cd /repo && GOFLAGS=-mod=mod GOPROXY=off go test -vet=off -count=1 ./...", "source_commits": [], "add_only": True},
 "engines": [{"name": "gosym", "path": "engine/cmd/gosym", "serves_properties": sorted(claimed),
              "kind_free_text": "bounded symbolic executor for Go SSA (golang.org/x/tools/go/ssa v0.29.0) with z3 5.1.0 / cvc5 1.0.3 back ends; counterexamples replayed natively"}],
 "checks": [], "not_applicable": [],
 "notes": "All checks: ./check <id> [--tier thorough]. Exit 0 holds within bounds (KNOWN-FINDING lines allowed), 1 VIOLATION (natively reproduced), 2 inconclusive. Genuine defects repaired in /repo as 'fix:' commits are listed in known_findings.json (status fixed)."
}
NA = {}
for p in props:
    pid = p['id']
    if pid in claimed:
        text, note = claimed[pid]
        man["checks"].append({"property_id": pid, "quick_cmd": "./check %s" % pid, "thorough_cmd": "./check %s --tier thorough" % pid,
                              "evidence_file": "evidence/%s.json" % pid, "replay_cmd_template": "./check %s --replay {path}" % pid, "engine": "gosym",
                              "level_claimed": {"category": "other", "text": text, "design_ref": "DESIGN.md §3 " + pid},
                              "level_note": note, "technique": TECH})
    else:
        man["not_applicable"].append({"property_id": pid, "reason": NA.get(pid, "check not built yet (work in progress; plan in DESIGN.md §3)")})
json.dump(man, open(os.path.join(V, 'MANIFEST.json'), 'w'), indent=1)
print("claimed:", sorted(claimed))
