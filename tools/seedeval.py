#!/usr/bin/env python3
"""seedeval.py <property-id> <A|B|...> [--wt DIR] [--tier quick|thorough] [--checks C04,C08]
Confirms a seeded mutation produced in a scratch worktree (suite passes with it, demo fails with it and passes
without), runs the registered check(s) against the mutated worktree (VERIF_REPO), and stores the mutation under
/verif/seeded/<id>-<mut>/ with meta.json."""
import argparse, json, os, re, shutil, subprocess, sys, time
V = os.path.dirname(os.path.dirname(os.path.abspath(__file__)))
ENV = dict(os.environ, GOFLAGS="-mod=mod", GOPROXY="off", GOSUMDB="off", GOTOOLCHAIN="local")

def sh(cmd, cwd, timeout=1800, env=None):
    r = subprocess.run(cmd, cwd=cwd, shell=isinstance(cmd, str), text=True, capture_output=True, env=env or ENV, timeout=timeout)
    return r.returncode, r.stdout + r.stderr

def main():
    ap = argparse.ArgumentParser()
    ap.add_argument("pid"); ap.add_argument("mut")
    ap.add_argument("--wt"); ap.add_argument("--tier", default="quick"); ap.add_argument("--checks")
    ap.add_argument("--skip-confirm", action="store_true")
    ap.add_argument("--only", help="passed to check --only")
    a = ap.parse_args()
    wt = a.wt or "/tmp/seed/" + a.pid
    out = os.path.join(wt, "_out")
    dst = os.path.join(V, "seeded", "%s-%s" % (a.pid, a.mut))
    patch = os.path.join(out, "mut%s.diff" % a.mut)
    demo = os.path.join(out, "mut%s_demo_test.go" % a.mut)
    if not os.path.exists(patch) and os.path.exists(os.path.join(dst, "patch.diff")):
        patch, demo = os.path.join(dst, "patch.diff"), os.path.join(dst, "demo_test.go")
    place = re.search(r"place at:\s*(\S+)", open(demo).read()).group(1)
    meta = {"property": a.pid, "mutation": a.mut, "demo_place": place}
    mdp = os.path.join(dst, "meta.json")
    if os.path.exists(mdp):
        meta = json.load(open(mdp))
    sh("git checkout -- . && git clean -fdq -e _out -e PROPERTY.json -e TASK.md && git checkout -q --detach $(git -C /repo rev-parse HEAD)", wt)
    meta["repo_head"] = subprocess.run("git -C /repo rev-parse --short HEAD", shell=True, text=True, capture_output=True).stdout.strip()
    def apply(rev=False):
        rc, o = sh(["git", "apply"] + (["-R"] if rev else []) + [patch], wt)
        if rc: print("apply failed", o); sys.exit(3)
    if not a.skip_confirm:
        apply()
        rc, o = sh("go build ./... && go test -vet=off -count=1 ./... 2>&1", wt)
        fails = [l for l in o.splitlines() if l.startswith("--- FAIL")]
        bad = [l for l in fails if "TestTryWriteCSV" not in l]
        meta["suite_with_mutation"] = "pass" if not bad and "build failed" not in o else "FAIL: " + "; ".join(bad)[:300]
        shutil.copy(demo, os.path.join(wt, place))
        pk = "./" + os.path.dirname(place)
        rc1, o1 = sh(["go", "test", "-vet=off", "-count=1", "-run", "TestZZDemo", pk], wt)
        meta["demo_with_mutation"] = "fail" if rc1 != 0 else "PASS(unexpected)"
        apply(True)
        rc2, o2 = sh(["go", "test", "-vet=off", "-count=1", "-run", "TestZZDemo", pk], wt)
        meta["demo_without_mutation"] = "pass" if rc2 == 0 else "FAIL(unexpected): " + o2[-300:]
        os.remove(os.path.join(wt, place))
        meta["confirmed"] = meta["suite_with_mutation"] == "pass" and rc1 != 0 and rc2 == 0
        print("confirm:", {k: meta[k] for k in ("suite_with_mutation", "demo_with_mutation", "demo_without_mutation")})
    apply()
    res = meta.setdefault("checks", {})
    for cid in (a.checks or a.pid).split(","):
        t0 = time.time()
        cmd = [os.path.join(V, "check"), cid, "--tier", a.tier]
        if a.only: cmd += ["--only", a.only]
        rc, o = sh(cmd, V, env=dict(ENV, VERIF_REPO=wt), timeout=7200)
        lines = [l for l in o.splitlines() if l.startswith(("VIOLATION", "KNOWN-FINDING", "INCONCLUSIVE", "  harness="))]
        res["%s/%s%s" % (cid, a.tier, ("/" + a.only) if a.only else "")] = {"exit": rc, "lines": lines[:8], "wall_s": round(time.time() - t0, 1)}
        print(cid, a.tier, "exit", rc, "%.0fs" % (time.time() - t0)); print("\n".join(lines[:8]))
    apply(True)
    meta["detected"] = any(r["exit"] == 1 for r in res.values())
    os.makedirs(dst, exist_ok=True)
    if os.path.abspath(patch) != os.path.join(dst, "patch.diff"):
        shutil.copy(patch, os.path.join(dst, "patch.diff")); shutil.copy(demo, os.path.join(dst, "demo_test.go"))
        md = os.path.join(out, "mut%s.md" % a.mut)
        if os.path.exists(md):
            shutil.copy(md, os.path.join(dst, "notes.md"))
            meta["needs_to_manifest"] = "see notes.md"
    meta["what_was_run"] = "tools/seedeval.py: git apply patch in a scratch worktree of /repo; go build ./... && go test -vet=off -count=1 ./... (suite); go test -run TestZZDemo with and without the patch; ./check <id> with VERIF_REPO=<worktree> (same effect as applying the patch to /repo and reverting)"
    json.dump(meta, open(mdp, "w"), indent=1)

main()
