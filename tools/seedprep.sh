#!/bin/bash
# seedprep.sh <property-id>: scratch worktree of /repo for an independent mutation author.
# The worktree gets only the property text (PROPERTY.json) and the task description (TASK.md); nothing from /verif.
set -e
pid=$1
wt=/tmp/seed/$pid
V=$(cd "$(dirname "$0")/.." && pwd)
if [ -d "$wt" ]; then git -C /repo worktree remove --force "$wt" || rm -rf "$wt"; fi
git -C /repo worktree prune
git -C /repo worktree add -q --detach "$wt" HEAD
mkdir -p "$wt/_out"
python3 - "$pid" "$V/properties.jsonl" > "$wt/PROPERTY.json" <<'PY'
import json, sys
for l in open(sys.argv[2]):
    p = json.loads(l)
    if p["id"] == sys.argv[1]:
        print(json.dumps({k: p[k] for k in ("id", "title", "statement", "quantifier", "why_tests_cant", "anchors")}, indent=1))
PY
cat > "$wt/TASK.md" <<'MD'
# Task: write two realistic regressions that break one semantic property

You are in a scratch git worktree of the Go project zix99/rare (a CLI log scanner). `PROPERTY.json` in this
directory states one semantic property the project is supposed to satisfy. Work ONLY inside this directory.

Produce **two different, independent changes** (A and B) to the project's non-test source code, each of which:

1. breaks the property stated in PROPERTY.json (for some input / schedule / history the statement quantifies over);
2. still compiles (`go build ./...`) and still passes the whole existing test suite, unedited
   (`go test -vet=off -count=1 ./...`; the test `TestTryWriteCSV` in cmd/helpers fails on the pristine tree too - ignore it);
3. looks like a plausible slip or "optimisation"/refactoring a maintainer could make - not sabotage, no dead code, no special-casing
   of magic inputs; small (a few lines);
4. needs something specific to manifest - a particular boundary value, an unusual byte, a multi-step sequence of operations, a
   particular interleaving or fault position, or two cooperating sites that each look fine alone - NOT something ordinary use exposes at once.
   A and B should break different aspects / code sites of the property.

Environment: offline. Prefix every go command with
`GOFLAGS=-mod=mod GOPROXY=off GOSUMDB=off GOTOOLCHAIN=local`.

For each change X in {A, B} write into `_out/`:

* `_out/mutX.diff` - the change as a patch produced by `git diff` from this directory (source change only, no test files), applicable
  with `git apply` to a pristine checkout;
* `_out/mutX_demo_test.go` - a Go test file containing a single test function named `TestZZDemoX` (in the package of the directory it is
  placed in) that FAILS with the change applied and PASSES on the pristine tree. Its first line must be a comment
  `// place at: <path relative to the repo root where this file must be copied, e.g. pkg/readahead/zz_demo_X_test.go>`.
  The test should be deterministic (if it needs a schedule, force it or retry enough to be reliable) and finish in < 60 s;
* `_out/mutX.md` - a few lines: what the change is, which clause of the property it breaks, and what exactly is needed for it to manifest.

Procedure for each: edit the source, run the suite, write and run the demo (must fail), save `git diff > _out/mutX.diff`,
`git checkout -- .` (so the tree is pristine again; keep `_out/`), run the demo again on the pristine tree (must pass), remove the
demo file from the source tree. Leave the worktree pristine at the end (only `_out/`, PROPERTY.json, TASK.md untracked).
Verify finally that both patches apply cleanly to the pristine tree (`git apply --check _out/mutA.diff`).
Report briefly what you produced.
MD
echo "$wt"
