package main

// Happens-before monitor for tier B (zz.RaceMonitor(true)): vector clocks per
// goroutine; synchronisation edges from go statements, channel send->receive
// (and receive->completed unbuffered send), close->receive, mutex
// unlock->lock, WaitGroup Done->Wait and sync/atomic operations (each address
// is an acquire+release point). Every SSA-level load and store of a heap
// cell is checked against the cell's last write and its reads since: two
// accesses, at least one a write, by different goroutines, unordered by
// happens-before = DATA RACE, reported as a violation of kind "race".
// Accesses made inside engine models (builders, maps, append) are not
// monitored: the monitor under-reports, it does not invent races.

import (
	"fmt"
	"go/token"

	"golang.org/x/tools/go/ssa"
)

type vclock []int

func (v vclock) get(i int) int {
	if i < len(v) {
		return v[i]
	}
	return 0
}

func (v vclock) copyOf() vclock { return append(vclock(nil), v...) }

func joinVC(a, b vclock) vclock {
	if len(b) > len(a) {
		a = append(a, make(vclock, len(b)-len(a))...)
	}
	for i := range b {
		if b[i] > a[i] {
			a[i] = b[i]
		}
	}
	return a
}

type access struct {
	g     int
	clock int
	fn    *ssa.Function
	pos   token.Pos
}

type cellInfo struct {
	w     *access
	reads map[int]*access
}

type raceState struct {
	vc    []vclock
	cells map[*Value]*cellInfo
	sync  map[interface{}]vclock
	off   int // >0: inside an engine model / atomic: do not check
}

func (s *schedState) raceOn() bool { return s != nil && s.race != nil }

func (w *Worker) raceStart() {
	s := w.sched
	s.race = &raceState{cells: map[*Value]*cellInfo{}, sync: map[interface{}]vclock{}}
	s.race.vc = make([]vclock, len(s.gs))
	for i := range s.race.vc {
		s.race.vc[i] = make(vclock, len(s.gs))
		s.race.vc[i][i] = 1
	}
}

func (r *raceState) clockOf(g int) vclock {
	for len(r.vc) <= g {
		r.vc = append(r.vc, nil)
	}
	if r.vc[g] == nil {
		r.vc[g] = make(vclock, g+1)
		r.vc[g][g] = 1
	}
	if len(r.vc[g]) <= g {
		r.vc[g] = append(r.vc[g], make(vclock, g+1-len(r.vc[g]))...)
	}
	return r.vc[g]
}

func (r *raceState) tick(g int) {
	c := r.clockOf(g)
	c[g]++
}

// release: publish g's clock on the sync object; acquire: join it.
func (w *Worker) raceRelease(key interface{}, merge bool) {
	if !w.sched.raceOn() {
		return
	}
	r := w.sched.race
	g := w.sched.cur.id
	if merge {
		r.sync[key] = joinVC(r.sync[key].copyOf(), r.clockOf(g))
	} else {
		r.sync[key] = r.clockOf(g).copyOf()
	}
	r.tick(g)
}

func (w *Worker) raceAcquire(key interface{}) {
	if !w.sched.raceOn() {
		return
	}
	r := w.sched.race
	g := w.sched.cur.id
	if v, ok := r.sync[key]; ok {
		r.vc[g] = joinVC(r.clockOf(g), v)
	}
}

func (w *Worker) raceFork(child int) {
	if !w.sched.raceOn() {
		return
	}
	r := w.sched.race
	g := w.sched.cur.id
	c := r.clockOf(g).copyOf()
	for len(c) <= child {
		c = append(c, 0)
	}
	c[child] = 1
	for len(r.vc) <= child {
		r.vc = append(r.vc, nil)
	}
	r.vc[child] = c
	r.tick(g)
}

func (w *Worker) raceAccess(fr *frame, p *Value, write bool, pos token.Pos) {
	s := w.sched
	if !s.raceOn() || s.race.off > 0 || p == nil {
		return
	}
	r := s.race
	g := s.cur.id
	vc := r.clockOf(g)
	ci := r.cells[p]
	if ci == nil {
		ci = &cellInfo{}
		r.cells[p] = ci
	}
	report := func(prev *access, prevKind string) {
		kind := "read"
		if write {
			kind = "write"
		}
		msg := fmt.Sprintf("DATA RACE: %s at %s is not ordered after the %s at %s", kind, shortWhere(fr.fn, pos), prevKind, shortWhere(prev.fn, prev.pos))
		w.path.violation("race", msg, fr.fn.String(), nil)
		panic(violationEnd{})
	}
	if ci.w != nil && ci.w.g != g && ci.w.clock > vc.get(ci.w.g) {
		report(ci.w, "write")
	}
	me := &access{g: g, clock: vc[g], fn: fr.fn, pos: pos}
	if write {
		for og, a := range ci.reads {
			if og != g && a.clock > vc.get(og) {
				report(a, "read")
			}
		}
		ci.w = me
		ci.reads = nil
	} else {
		if ci.reads == nil {
			ci.reads = map[int]*access{}
		}
		ci.reads[g] = me
	}
}

func shortWhere(fn *ssa.Function, pos token.Pos) string {
	p := fn.Prog.Fset.Position(pos)
	if !p.IsValid() {
		return fn.String()
	}
	f := p.Filename
	for i := len(f) - 1; i >= 0; i-- {
		if f[i] == '/' {
			f = f[i+1:]
			break
		}
	}
	return fmt.Sprintf("%s:%d (%s)", f, p.Line, fn.Name())
}
