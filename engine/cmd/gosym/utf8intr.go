package main

// unicode/utf8 entry points over symbolic bytes: the real bodies index the
// 256-entry `first` table and assemble runes with shifts and ors, which turns
// every query into mixed Int/bit-vector reasoning. These models follow the
// same decision structure (decodeRune/encodeRune fork on the byte classes)
// and stay in linear integer arithmetic. Concrete inputs use the real code.

import (
	"unicode/utf8"
)

func allConcrete(b []Value) bool {
	for _, c := range b {
		if _, ok := c.(int64); !ok {
			return false
		}
	}
	return true
}

func (w *Worker) decodeLastRune(fr *frame, b []Value) (Value, int) {
	end := len(b)
	if end == 0 {
		return int64(utf8.RuneError), 0
	}
	p := w.path
	bk := intKind{8, false}
	last := liftInt(b[end-1], bk)
	if p.Branch(tLt(last, intConst(0x80))) {
		return lowerInt(last, bk), 1
	}
	lim := end - utf8.UTFMax
	if lim < 0 {
		lim = 0
	}
	start := end - 2
	for ; start >= lim; start-- {
		c := liftInt(b[start], bk)
		isCont := tAnd(tGe(c, intConst(0x80)), tLe(c, intConst(0xBF)))
		if !p.Branch(isCont) {
			break
		}
	}
	if start < 0 {
		start = 0
	}
	r, size := w.decodeRune(fr, b[start:end])
	if start+size != end {
		return int64(utf8.RuneError), 1
	}
	return r, size
}

func init() {
	dec := func(last bool) intrinsicFn {
		return func(fr *frame, a []Value) (Value, bool) {
			var b []Value
			switch x := a[0].(type) {
			case Str:
				b = fr.w.cells(x).b
			case Slice:
				b = x.v
			}
			if allConcrete(b) {
				return nil, false
			}
			var r Value
			var n int
			if last {
				r, n = fr.w.decodeLastRune(fr, b)
			} else {
				r, n = fr.w.decodeRune(fr, b)
			}
			return Tuple{r, int64(n)}, true
		}
	}
	intrinsics["unicode/utf8.DecodeRuneInString"] = dec(false)
	intrinsics["unicode/utf8.DecodeRune"] = dec(false)
	intrinsics["unicode/utf8.DecodeLastRuneInString"] = dec(true)
	intrinsics["unicode/utf8.DecodeLastRune"] = dec(true)
	count := func(fr *frame, a []Value) (Value, bool) {
		var b []Value
		switch x := a[0].(type) {
		case Str:
			b = fr.w.cells(x).b
		case Slice:
			b = x.v
		}
		if allConcrete(b) {
			return nil, false
		}
		n := 0
		for i := 0; i < len(b); {
			_, sz := fr.w.decodeRune(fr, b[i:])
			i += sz
			n++
		}
		return int64(n), true
	}
	intrinsics["unicode/utf8.RuneCountInString"] = count
	intrinsics["unicode/utf8.RuneCount"] = count
	valid := func(fr *frame, a []Value) (Value, bool) {
		var b []Value
		switch x := a[0].(type) {
		case Str:
			b = fr.w.cells(x).b
		case Slice:
			b = x.v
		}
		if allConcrete(b) {
			return nil, false
		}
		for i := 0; i < len(b); {
			r, sz := fr.w.decodeRune(fr, b[i:])
			if rv, ok := r.(int64); ok && rv == utf8.RuneError && sz == 1 {
				return false, true
			}
			i += sz
		}
		return true, true
	}
	intrinsics["unicode/utf8.ValidString"] = valid
	intrinsics["unicode/utf8.Valid"] = valid
	intrinsics["unicode/utf8.AppendRune"] = func(fr *frame, a []Value) (Value, bool) {
		if _, ok := a[1].(*Term); !ok {
			return nil, false
		}
		return fr.w.appendVals(a[0].(Slice), fr.w.encodeRune(fr, a[1]), int64(0)), true
	}
	intrinsics["unicode/utf8.RuneLen"] = func(fr *frame, a []Value) (Value, bool) {
		r, ok := a[0].(*Term)
		if !ok {
			return nil, false
		}
		p := fr.w.path
		if p.Branch(tLt(r, intConst(0))) {
			return int64(-1), true
		}
		if p.Branch(tLt(r, intConst(0x80))) {
			return int64(1), true
		}
		if p.Branch(tLt(r, intConst(0x800))) {
			return int64(2), true
		}
		if p.Branch(tAnd(tGe(r, intConst(0xD800)), tLe(r, intConst(0xDFFF)))) {
			return int64(-1), true
		}
		if p.Branch(tLt(r, intConst(0x10000))) {
			return int64(3), true
		}
		if p.Branch(tLe(r, intConst(utf8.MaxRune))) {
			return int64(4), true
		}
		return int64(-1), true
	}
}
