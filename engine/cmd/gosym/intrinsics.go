package main

// Models of functions that have no Go body (assembly, runtime, unsafe) or
// that form the environment (nondet, I/O, clocks). Every entry is part of
// the claim; stubs that are hit are counted in the evidence.

import (
	"fmt"
	"go/types"
	"math"
	"math/big"
	"strings"

	"golang.org/x/tools/go/ssa"
)

type intrinsicFn func(fr *frame, args []Value) (Value, bool)

var intrinsics = map[string]intrinsicFn{}

func lookupIntrinsic(fn *ssa.Function) intrinsicFn {
	name := fn.String()
	if f, ok := intrinsics[name]; ok {
		return f
	}
	// generic instantiations: strip type arguments
	if i := strings.Index(name, "["); i > 0 {
		if f, ok := intrinsics[name[:i]]; ok {
			return f
		}
	}
	return nil
}

func reg(name string, f func(fr *frame, args []Value) Value) {
	intrinsics[name] = func(fr *frame, args []Value) (Value, bool) { return f(fr, args), true }
}

func (w *Worker) stub(name string) {
	w.stubs[name]++
}

var bk8 = intKind{8, false}
var ik64 = intKind{64, true}

func byteEq(w *Worker, a, b Value) *Term { return w.eqVal(a, b) }

func indexByteCells(w *Worker, cells []Value, c Value) Value {
	// ite-chain: first i with cells[i]==c, else -1
	r := intConst(-1)
	for i := len(cells) - 1; i >= 0; i-- {
		r = tIte(byteEq(w, cells[i], c), intConst(int64(i)), r)
	}
	return lowerIntAny(r)
}

func lastIndexByteCells(w *Worker, cells []Value, c Value) Value {
	r := intConst(-1)
	for i := 0; i < len(cells); i++ {
		r = tIte(byteEq(w, cells[i], c), intConst(int64(i)), r)
	}
	return lowerIntAny(r)
}

func indexCells(w *Worker, s, sep []Value) Value {
	n := len(sep)
	if n == 0 {
		return int64(0)
	}
	r := intConst(-1)
	for i := len(s) - n; i >= 0; i-- {
		eq := trueT
		for j := 0; j < n; j++ {
			eq = tAnd(eq, byteEq(w, s[i+j], sep[j]))
			if eq == falseT {
				break
			}
		}
		r = tIte(eq, intConst(int64(i)), r)
	}
	return lowerIntAny(r)
}

func countByteCells(w *Worker, cells []Value, c Value) Value {
	r := intConst(0)
	for _, x := range cells {
		r = tAdd(r, tIte(byteEq(w, x, c), intConst(1), intConst(0)))
	}
	return lowerIntAny(r)
}

func cellsOf(w *Worker, v Value) []Value {
	switch v := v.(type) {
	case Str:
		return w.cells(v).b
	case Slice:
		return v.v
	}
	panic(engineError{fmt.Sprintf("cellsOf %T", v)})
}

func structField(p Value, i int) *Value {
	return &(*(p.(*Value))).(Struct)[i]
}

func init() {
	// ---------- nondet runtime ----------
	zz := "rare/pkg/zzverif."
	mkInt := func(bits uint, signed bool, kind string) func(fr *frame, args []Value) Value {
		return func(fr *frame, args []Value) Value {
			p := fr.w.path
			t := p.freshInt(bits, signed)
			p.nondets = append(p.nondets, NondetEntry{Kind: kind, Term: t, Bits: bits, Sgn: signed})
			return t
		}
	}
	reg(zz+"Int64", mkInt(64, true, "int"))
	reg(zz+"Int", mkInt(64, true, "int"))
	reg(zz+"Int32", mkInt(32, true, "int"))
	reg(zz+"Uint64", mkInt(64, false, "int"))
	reg(zz+"Byte", mkInt(8, false, "int"))
	reg(zz+"IntRange", func(fr *frame, args []Value) Value {
		p := fr.w.path
		lo, hi := fr.w.concInt(args[0]), fr.w.concInt(args[1])
		if lo > hi {
			panic(pathEnd{"empty IntRange"})
		}
		if lo == hi {
			p.nondets = append(p.nondets, NondetEntry{Kind: "int", Conc: lo})
			return lo
		}
		t := p.freshIntRange(big.NewInt(lo), big.NewInt(hi))
		p.nondets = append(p.nondets, NondetEntry{Kind: "int", Term: t})
		return t
	})
	reg(zz+"Bool", func(fr *frame, args []Value) Value {
		p := fr.w.path
		t := p.freshBool()
		p.nondets = append(p.nondets, NondetEntry{Kind: "bool", Term: t})
		return t
	})
	reg(zz+"Float64", func(fr *frame, args []Value) Value {
		p := fr.w.path
		t := p.freshFP()
		p.nondets = append(p.nondets, NondetEntry{Kind: "float", Term: t})
		return t
	})
	reg(zz+"Choice", func(fr *frame, args []Value) Value {
		p := fr.w.path
		n := int(fr.w.concInt(args[0]))
		c := p.Choice(n)
		p.nondets = append(p.nondets, NondetEntry{Kind: "choice", Conc: int64(c)})
		return int64(c)
	})
	reg(zz+"Len", func(fr *frame, args []Value) Value {
		p := fr.w.path
		n := int(fr.w.concInt(args[0]))
		c := p.Choice(n + 1)
		p.nondets = append(p.nondets, NondetEntry{Kind: "choice", Conc: int64(c)})
		return int64(c)
	})
	symBytes := func(fr *frame, n int) []Value {
		p := fr.w.path
		out := make([]Value, n)
		for i := range out {
			t := p.freshInt(8, false)
			p.nondets = append(p.nondets, NondetEntry{Kind: "int", Term: t, Bits: 8})
			out[i] = t
		}
		return out
	}
	reg(zz+"Bytes", func(fr *frame, args []Value) Value {
		return Slice{v: symBytes(fr, int(fr.w.concInt(args[0]))), nonNil: true}
	})
	reg(zz+"String", func(fr *frame, args []Value) Value {
		return Str{b: symBytes(fr, int(fr.w.concInt(args[0])))}
	})
	reg(zz+"Assume", func(fr *frame, args []Value) Value {
		fr.w.path.Assume(liftBool(args[0]))
		return nil
	})
	reg(zz+"Assert", func(fr *frame, args []Value) Value {
		msg, _ := args[1].(Str).concrete()
		where := ""
		if fr.caller != nil {
			where = fr.caller.fn.String()
		}
		fr.w.path.CheckAssert(liftBool(args[0]), "assert", msg, where)
		return nil
	})
	reg(zz+"Reached", func(fr *frame, args []Value) Value {
		fr.w.path.reached = true
		return nil
	})
	reg(zz+"Note", func(fr *frame, args []Value) Value {
		fr.w.path.ghost = append(fr.w.path.ghost, args[0].(Str).String())
		return nil
	})
	reg(zz+"Symbolic", func(fr *frame, args []Value) Value { return true })
	reg(zz+"IntStr", func(fr *frame, args []Value) Value {
		switch v := args[0].(type) {
		case int64:
			return mkStr(fmt.Sprint(v))
		case *Term:
			return Str{tag: &StrTag{intOf: v}}
		}
		panic(engineError{"IntStr"})
	})
	reg(zz+"FloatStr", func(fr *frame, args []Value) Value {
		return Str{tag: &StrTag{isFloat: true, fpOf: args[0], fmtC: 'f', prec: -1}}
	})
	reg(zz+"AbstractFloatText", func(fr *frame, args []Value) Value {
		fr.w.absFloatText = liftBool(args[0]) == trueT
		return nil
	})
	reg(zz+"AbstractFloatArith", func(fr *frame, args []Value) Value {
		fr.w.absFloatArith = liftBool(args[0]) == trueT
		return nil
	})
	reg(zz+"ClockAdvance", func(fr *frame, args []Value) Value { return nil })
	reg(zz+"OpaqueParseFloat", func(fr *frame, args []Value) Value {
		fr.w.opaqueParseFloat = liftBool(args[0]) == trueT
		return nil
	})
	reg(zz+"CaptureStdout", func(fr *frame, args []Value) Value {
		fr.w.out = fr.w.out[:0]
		return nil
	})
	reg(zz+"Stdout", func(fr *frame, args []Value) Value {
		return Str{b: append([]Value(nil), fr.w.out...)}
	})
	reg(zz+"Concurrent", func(fr *frame, args []Value) Value {
		if fr.w.sched != nil {
			panic(engineError{"zz.Concurrent called twice"})
		}
		fr.w.schedStart(int(fr.w.concInt(args[0])), int(fr.w.concInt(args[1])), int(fr.w.concInt(args[2])))
		return nil
	})
	reg(zz+"RaceMonitor", func(fr *frame, args []Value) Value {
		if fr.w.sched == nil {
			panic(engineError{"zz.RaceMonitor needs zz.Concurrent first"})
		}
		fr.w.raceStart()
		return nil
	})
	reg(zz+"Yield", func(fr *frame, args []Value) Value {
		if fr.w.sched != nil {
			fr.w.yieldPoint(nil, "yield")
		}
		return nil
	})
	reg(zz+"BoundedChans", func(fr *frame, args []Value) Value {
		fr.w.boundedChans = liftBool(args[0]) == trueT
		return nil
	})
	reg(zz+"SplitDiv", func(fr *frame, args []Value) Value {
		fr.w.splitDiv = liftBool(args[0]) == trueT
		return nil
	})
	reg(zz+"LoopBound", func(fr *frame, args []Value) Value {
		fr.w.loopBound = int(fr.w.concInt(args[0]))
		return nil
	})
	reg(zz+"MapOrder", func(fr *frame, args []Value) Value {
		fr.w.mapOrderFork = liftBool(args[0]) == trueT
		return nil
	})

	// ---------- bytealg & friends ----------
	reg("internal/bytealg.IndexByteString", func(fr *frame, a []Value) Value { return indexByteCells(fr.w, cellsOf(fr.w, a[0]), a[1]) })
	reg("internal/bytealg.IndexByte", func(fr *frame, a []Value) Value { return indexByteCells(fr.w, cellsOf(fr.w, a[0]), a[1]) })
	reg("internal/bytealg.LastIndexByteString", func(fr *frame, a []Value) Value { return lastIndexByteCells(fr.w, cellsOf(fr.w, a[0]), a[1]) })
	reg("internal/bytealg.LastIndexByte", func(fr *frame, a []Value) Value { return lastIndexByteCells(fr.w, cellsOf(fr.w, a[0]), a[1]) })
	reg("internal/bytealg.CountString", func(fr *frame, a []Value) Value { return countByteCells(fr.w, cellsOf(fr.w, a[0]), a[1]) })
	reg("internal/bytealg.Count", func(fr *frame, a []Value) Value { return countByteCells(fr.w, cellsOf(fr.w, a[0]), a[1]) })
	reg("internal/bytealg.IndexString", func(fr *frame, a []Value) Value { return indexCells(fr.w, cellsOf(fr.w, a[0]), cellsOf(fr.w, a[1])) })
	reg("internal/bytealg.Index", func(fr *frame, a []Value) Value { return indexCells(fr.w, cellsOf(fr.w, a[0]), cellsOf(fr.w, a[1])) })
	reg("internal/stringslite.Index", func(fr *frame, a []Value) Value { return indexCells(fr.w, cellsOf(fr.w, a[0]), cellsOf(fr.w, a[1])) })
	reg("strings.Index", func(fr *frame, a []Value) Value { return indexCells(fr.w, cellsOf(fr.w, a[0]), cellsOf(fr.w, a[1])) })
	reg("bytes.Index", func(fr *frame, a []Value) Value { return indexCells(fr.w, cellsOf(fr.w, a[0]), cellsOf(fr.w, a[1])) })
	reg("internal/bytealg.Equal", func(fr *frame, a []Value) Value {
		return lowerBool(fr.w.strEq(Str{b: cellsOf(fr.w, a[0])}, Str{b: cellsOf(fr.w, a[1])}))
	})
	cmp := func(fr *frame, a []Value) Value {
		x, y := Str{b: cellsOf(fr.w, a[0])}, Str{b: cellsOf(fr.w, a[1])}
		r := tIte(fr.w.strLess(x, y), intConst(-1), tIte(fr.w.strEq(x, y), intConst(0), intConst(1)))
		return lowerIntAny(r)
	}
	reg("internal/bytealg.Compare", cmp)
	reg("internal/bytealg.CompareString", cmp)
	reg("internal/bytealg.MakeNoZero", func(fr *frame, a []Value) Value {
		n := int(fr.w.concInt(a[0]))
		cells := make([]Value, n)
		for i := range cells {
			cells[i] = int64(0)
		}
		return Slice{v: cells, nonNil: true}
	})
	clone := func(fr *frame, a []Value) Value {
		s := fr.w.cells(a[0].(Str))
		nb := make([]Value, len(s.b))
		copy(nb, s.b)
		return Str{b: nb}
	}
	reg("internal/stringslite.Clone", clone)
	reg("strings.Clone", clone)
	reg("internal/abi.NoEscape", func(fr *frame, a []Value) Value { return a[0] })
	reg("internal/abi.Escape", func(fr *frame, a []Value) Value { return a[0] })

	// ---------- strings.Builder (unsafe inside) ----------
	reg("(*strings.Builder).copyCheck", func(fr *frame, a []Value) Value { return nil })
	reg("(*strings.Builder).String", func(fr *frame, a []Value) Value {
		buf := (*structField(a[0], 1)).(Slice)
		return Str{b: buf.v[:len(buf.v):len(buf.v)]}
	})
	reg("(*strings.Builder).grow", func(fr *frame, a []Value) Value {
		p := structField(a[0], 1)
		buf := (*p).(Slice)
		n := int(fr.w.concInt(a[1]))
		nb := make([]Value, len(buf.v), 2*cap(buf.v)+n)
		copy(nb, buf.v)
		full := nb[:cap(nb)]
		for i := len(buf.v); i < len(full); i++ {
			full[i] = int64(0)
		}
		fr.w.store(p, Slice{v: nb, nonNil: true})
		return nil
	})
	reg("(*bytes.Buffer).String", nil2(func(fr *frame, a []Value) Value {
		if a[0].(*Value) == nil {
			return mkStr("<nil>")
		}
		buf := (*structField(a[0], 0)).(Slice)
		off := int((*structField(a[0], 1)).(int64))
		nb := make([]Value, len(buf.v)-off)
		copy(nb, buf.v[off:])
		return Str{b: nb}
	}))

	// ---------- unsafe-based std helpers ----------
	reg("math.Float64bits", func(fr *frame, a []Value) Value {
		if f, ok := a[0].(float64); ok {
			return int64(math.Float64bits(f))
		}
		panic(engineError{"math.Float64bits of a symbolic float"})
	})
	reg("math.Float64frombits", func(fr *frame, a []Value) Value {
		if v, ok := a[0].(int64); ok {
			return math.Float64frombits(uint64(v))
		}
		panic(engineError{"math.Float64frombits of a symbolic value"})
	})
	reg("math.Float32bits", func(fr *frame, a []Value) Value {
		if f, ok := a[0].(float64); ok {
			return int64(math.Float32bits(float32(f)))
		}
		panic(engineError{"math.Float32bits of a symbolic float"})
	})
	reg("math.Float32frombits", func(fr *frame, a []Value) Value {
		if v, ok := a[0].(int64); ok {
			return float64(math.Float32frombits(uint32(v)))
		}
		panic(engineError{"math.Float32frombits of a symbolic value"})
	})
	regMath1 := func(name string, f func(float64) float64, smt string) {
		reg("math."+name, func(fr *frame, a []Value) Value {
			switch x := a[0].(type) {
			case float64:
				return f(x)
			case *Term:
				if smt != "" {
					return fr.w.fpUn(smt, x)
				}
				return fr.w.opaqueFloatFn("math."+name, x)
			}
			panic(engineError{"math." + name})
		})
	}
	regMath1("Floor", math.Floor, "floor")
	regMath1("Ceil", math.Ceil, "ceil")
	regMath1("Trunc", math.Trunc, "trunc")
	regMath1("Abs", math.Abs, "abs")
	regMath1("Sqrt", math.Sqrt, "sqrt")
	regMath1("Round", math.Round, "round")
	regMath1("Log", math.Log, "")
	regMath1("Log2", math.Log2, "")
	regMath1("Log10", math.Log10, "")
	regMath1("Log1p", math.Log1p, "")
	regMath1("Exp", math.Exp, "")
	regMath1("Exp2", math.Exp2, "")
	regMath1("Sin", math.Sin, "")
	regMath1("Cos", math.Cos, "")
	regMath1("Tan", math.Tan, "")
	regMath1("Asin", math.Asin, "")
	regMath1("Acos", math.Acos, "")
	regMath1("Atan", math.Atan, "")
	regMath1("Sinh", math.Sinh, "")
	regMath1("Cosh", math.Cosh, "")
	regMath1("Tanh", math.Tanh, "")
	regMath1("Cbrt", math.Cbrt, "")
	regMath1("Gamma", math.Gamma, "")
	reg("math.Pow", func(fr *frame, a []Value) Value {
		x, xc := a[0].(float64)
		y, yc := a[1].(float64)
		if xc && yc {
			return math.Pow(x, y)
		}
		return fr.w.opaqueFloatFn("math.Pow", liftFloat(a[0]), liftFloat(a[1]))
	})
	reg("math.Pow10", func(fr *frame, a []Value) Value {
		if n, ok := a[0].(int64); ok {
			return math.Pow10(int(n))
		}
		fr.w.stub("math.Pow10 of a symbolic exponent: arbitrary float64 per distinct exponent (over-approximation)")
		p := fr.w.path
		h1, h2 := liftIntAny(a[0]).hash()
		key := fmt.Sprintf("pow10/%x.%x", h1, h2)
		if p.opaque == nil {
			p.opaque = map[string]*Term{}
		}
		if t, ok := p.opaque[key]; ok {
			return t
		}
		t := p.freshFP()
		p.opaque[key] = t
		return t
	})
	reg("math.Mod", func(fr *frame, a []Value) Value {
		x, xc := a[0].(float64)
		y, yc := a[1].(float64)
		if xc && yc {
			return math.Mod(x, y)
		}
		return fr.w.opaqueFloatFn("math.Mod", liftFloat(a[0]), liftFloat(a[1]))
	})
	reg("math.IsNaN", func(fr *frame, a []Value) Value {
		switch x := a[0].(type) {
		case float64:
			return math.IsNaN(x)
		case *Term:
			return tFP("fp.isNaN", SBool, x)
		}
		panic(engineError{"IsNaN"})
	})
	reg("math.IsInf", func(fr *frame, a []Value) Value {
		sign := fr.w.concInt(a[1])
		switch x := a[0].(type) {
		case float64:
			return math.IsInf(x, int(sign))
		case *Term:
			inf := tFP("fp.isInfinite", SBool, x)
			if sign > 0 {
				return lowerBool(tAnd(inf, tFP("fp.isPositive", SBool, x)))
			} else if sign < 0 {
				return lowerBool(tAnd(inf, tFP("fp.isNegative", SBool, x)))
			}
			return inf
		}
		panic(engineError{"IsInf"})
	})
	reg("math.Inf", func(fr *frame, a []Value) Value { return math.Inf(int(fr.w.concInt(a[0]))) })
	reg("math.NaN", func(fr *frame, a []Value) Value { return math.NaN() })

	// ---------- sync / atomic (sequential semantics; tier B overrides) ----------
	nop := func(fr *frame, a []Value) Value { return nil }
	for _, n := range []string{"(*sync.Mutex).Lock", "(*sync.Mutex).Unlock", "(*sync.RWMutex).Lock", "(*sync.RWMutex).Unlock",
		"(*sync.RWMutex).RLock", "(*sync.RWMutex).RUnlock"} {
		name := n
		reg(name, func(fr *frame, a []Value) Value { return fr.w.syncOp(fr, name, a) })
	}
	reg("(*sync.Mutex).TryLock", func(fr *frame, a []Value) Value {
		if s := fr.w.sched; s != nil {
			p, _ := a[0].(*Value)
			fr.w.yieldPoint(nil, "trylock")
			if s.locked[p] {
				return false
			}
			s.locked[p] = true
			fr.w.raceAcquire(p)
			return true
		}
		return true
	})
	reg("(*sync.WaitGroup).Add", func(fr *frame, a []Value) Value { return fr.w.syncOp(fr, "wg.Add", a) })
	reg("(*sync.WaitGroup).Done", func(fr *frame, a []Value) Value { return fr.w.syncOp(fr, "wg.Done", a) })
	reg("(*sync.WaitGroup).Wait", func(fr *frame, a []Value) Value { return fr.w.syncOp(fr, "wg.Wait", a) })
	reg("(*sync.Once).Do", func(fr *frame, a []Value) Value {
		done := structField(a[0], 0)
		// the first field (done) differs between Go versions; use a side table
		if fr.w.onceDone[a[0].(*Value)] {
			return nil
		}
		_ = done
		fr.w.onceDone[a[0].(*Value)] = true
		p := a[0].(*Value)
		if fr.w.logging {
			fr.w.mapUndo = append(fr.w.mapUndo, func() { delete(fr.w.onceDone, p) })
		}
		fr.w.call(fr, 0, a[1], nil)
		return nil
	})
	reg("(*sync.Pool).Get", func(fr *frame, a []Value) Value {
		// a pool may always miss: call New, or return nil
		st := (*(a[0].(*Value))).(Struct)
		newFn := st[len(st)-1]
		if newFn == nil {
			return Iface{}
		}
		return fr.w.call(fr, 0, newFn, nil)
	})
	reg("(*sync.Pool).Put", nop)
	reg("runtime.SetFinalizer", nop)
	reg("runtime.KeepAlive", nop)
	reg("runtime.GC", nop)
	reg("runtime.Gosched", nop)
	reg("runtime.GOMAXPROCS", func(fr *frame, a []Value) Value { return int64(1) })
	reg("runtime.NumCPU", func(fr *frame, a []Value) Value { return int64(1) })
	reg("internal/race.Acquire", nop)
	reg("internal/race.Release", nop)
	reg("internal/race.ReleaseMerge", nop)
	reg("internal/race.Disable", nop)
	reg("internal/race.Enable", nop)
	reg("internal/race.Read", nop)
	reg("internal/race.Write", nop)
	reg("internal/race.ReadRange", nop)
	reg("internal/race.WriteRange", nop)
	reg("internal/godebug.(*Setting).Value", func(fr *frame, a []Value) Value { return Str{} })
	reg("internal/godebug.(*Setting).IncNonDefault", nop)

	atomicLoad := func(fr *frame, a []Value) Value {
		fr.w.visible(fr, "atomic.Load")
		fr.w.atomicEdge(a[0])
		return fr.load(nil, a[0], 0)
	}
	atomicStore := func(fr *frame, a []Value) Value {
		fr.w.visible(fr, "atomic.Store")
		fr.w.atomicEdge(a[0])
		fr.storeTo(nil, a[0], a[1], 0)
		return nil
	}
	for _, t := range []string{"Int32", "Int64", "Uint32", "Uint64", "Uintptr", "Pointer"} {
		reg("sync/atomic.Load"+t, atomicLoad)
		reg("sync/atomic.Store"+t, atomicStore)
	}
	for _, t := range []struct {
		n string
		k intKind
	}{{"Int32", intKind{32, true}}, {"Int64", intKind{64, true}}, {"Uint32", intKind{32, false}}, {"Uint64", intKind{64, false}}} {
		k := t.k
		bt := map[string]types.Type{"Int32": types.Typ[types.Int32], "Int64": types.Typ[types.Int64], "Uint32": types.Typ[types.Uint32], "Uint64": types.Typ[types.Uint64]}[t.n]
		reg("sync/atomic.Add"+t.n, func(fr *frame, a []Value) Value {
			fr.w.visible(fr, "atomic.Add")
			fr.w.atomicEdge(a[0])
			old := fr.load(nil, a[0], 0)
			nv := fr.binop(tokenADD, bt, old, a[1], 0)
			fr.storeTo(nil, a[0], nv, 0)
			_ = k
			return nv
		})
		reg("sync/atomic.CompareAndSwap"+t.n, func(fr *frame, a []Value) Value {
			fr.w.visible(fr, "atomic.CAS")
			fr.w.atomicEdge(a[0])
			old := fr.load(nil, a[0], 0)
			eq := fr.w.eqVal(old, a[1])
			if fr.w.path.Branch(eq) {
				fr.storeTo(nil, a[0], a[2], 0)
				return true
			}
			return false
		})
		reg("sync/atomic.Swap"+t.n, func(fr *frame, a []Value) Value {
			fr.w.visible(fr, "atomic.Swap")
			fr.w.atomicEdge(a[0])
			old := fr.load(nil, a[0], 0)
			fr.storeTo(nil, a[0], a[1], 0)
			return old
		})
	}
	// typed atomics (atomic.Int64 etc.): field 'v' is the last field
	typedAtomic := func(tn string, bt types.Type) {
		vf := func(p Value) *Value {
			st := (*(p.(*Value))).(Struct)
			return &st[len(st)-1]
		}
		reg("(*sync/atomic."+tn+").Load", func(fr *frame, a []Value) Value {
			fr.w.visible(fr, "atomic.Load")
			fr.w.atomicEdge(a[0])
			return *vf(a[0])
		})
		reg("(*sync/atomic."+tn+").Store", func(fr *frame, a []Value) Value {
			fr.w.visible(fr, "atomic.Store")
			fr.w.atomicEdge(a[0])
			fr.w.store(vf(a[0]), a[1])
			return nil
		})
		if bt != nil {
			reg("(*sync/atomic."+tn+").Add", func(fr *frame, a []Value) Value {
				fr.w.visible(fr, "atomic.Add")
				fr.w.atomicEdge(a[0])
				nv := fr.binop(tokenADD, bt, *vf(a[0]), a[1], 0)
				fr.w.store(vf(a[0]), nv)
				return nv
			})
		}
	}
	typedAtomic("Int32", types.Typ[types.Int32])
	typedAtomic("Int64", types.Typ[types.Int64])
	typedAtomic("Uint32", types.Typ[types.Uint32])
	typedAtomic("Uint64", types.Typ[types.Uint64])
	typedAtomic("Bool", nil)
	reg("(*sync/atomic.Value).Load", func(fr *frame, a []Value) Value {
		fr.w.visible(fr, "atomic.Load")
		fr.w.atomicEdge(a[0])
		v := *structField(a[0], 0)
		if v == nil {
			return Iface{}
		}
		return v
	})
	reg("(*sync/atomic.Value).Store", func(fr *frame, a []Value) Value {
		fr.w.visible(fr, "atomic.Store")
		fr.w.atomicEdge(a[0])
		fr.w.store(structField(a[0], 0), a[1])
		return nil
	})

	// ---------- errors / reflection-light ----------
	reg("internal/reflectlite.TypeOf", func(fr *frame, a []Value) Value { panic(engineError{"reflectlite.TypeOf"}) })
	reg("errors.Is", nil2(func(fr *frame, a []Value) Value {
		// common case: comparable sentinel errors without Unwrap chains handled by real code;
		// real errors.Is uses reflectlite; model: walk Unwrap() chain comparing with ==.
		err, target := a[0].(Iface), a[1].(Iface)
		for depth := 0; depth < 10; depth++ {
			if err.t == nil {
				return target.t == nil
			}
			if target.t != nil && types.Identical(err.t, target.t) && types.Comparable(err.t) {
				if fr.w.path.Branch(fr.w.eqVal(err, target)) {
					return true
				}
			}
			sel := fr.w.prog.MethodSets.MethodSet(err.t).Lookup(nil, "Unwrap")
			if sel == nil {
				return false
			}
			m := fr.w.prog.MethodValue(sel)
			if m == nil || m.Signature.Results().Len() != 1 {
				return false
			}
			if _, isErr := m.Signature.Results().At(0).Type().Underlying().(*types.Interface); !isErr {
				return false
			}
			r := fr.w.call(fr, 0, m, []Value{err.v})
			err = r.(Iface)
		}
		return false
	}))

	// ---------- process environment ----------
	reg("os.Getenv", func(fr *frame, a []Value) Value { fr.w.stub("os.Getenv"); return Str{} })
	reg("os.LookupEnv", func(fr *frame, a []Value) Value { fr.w.stub("os.LookupEnv"); return Tuple{Str{}, false} })
	reg("os.Exit", func(fr *frame, a []Value) Value {
		panic(targetPanic{v: Iface{t: types.Typ[types.String], v: mkStr(fmt.Sprintf("os.Exit(%v)", a[0]))}, where: "os.Exit"})
	})
	reg("(*os.File).Write", func(fr *frame, a []Value) Value {
		s := a[1].(Slice)
		fr.w.ghostOut(Str{b: s.v})
		return Tuple{int64(len(s.v)), Iface{}}
	})
	reg("(*os.File).WriteString", func(fr *frame, a []Value) Value {
		s := fr.w.cells(a[1].(Str))
		fr.w.ghostOut(s)
		return Tuple{int64(len(s.b)), Iface{}}
	})
	reg("(*os.File).Stat", func(fr *frame, a []Value) Value {
		fr.w.stub("(*os.File).Stat: fails (no terminal, not piped)")
		return Tuple{Iface{}, fr.w.newError(fr, "stat: not available under gosym")}
	})
	reg("golang.org/x/term.IsTerminal", func(fr *frame, a []Value) Value { return false })
	reg("(*os.File).Sync", func(fr *frame, a []Value) Value { return Iface{} })
	reg("(*os.File).Fd", func(fr *frame, a []Value) Value { return int64(1) })
}

func (w *Worker) newError(fr *frame, msg string) Value {
	if ep := w.prog.ImportedPackage("errors"); ep != nil {
		if f := ep.Func("New"); f != nil {
			return w.call(fr, 0, f, []Value{mkStr(msg)})
		}
	}
	panic(engineError{"errors package not loaded"})
}

func nil2(f func(fr *frame, a []Value) Value) func(fr *frame, a []Value) Value { return f }

// ghostOut appends program output to the ghost trace readable by harnesses.
func (w *Worker) ghostOut(s Str) {
	w.out = append(w.out, w.cells(s).b...)
}

func (w *Worker) fpUn(op string, x *Term) Value {
	if x.op == "(_ to_fp 11 53)" && len(x.args) == 2 && x.args[1].op == "to_real" {
		switch op {
		case "floor", "ceil", "trunc", "round":
			return x // the conversion of an integer is integral
		}
	}
	switch op {
	case "abs":
		return tFP("fp.abs", SFP, x)
	case "sqrt":
		return tFP("fp.sqrt", SFP, &Term{op: "const", sort: SFP, raw: "RNE", size: 1}, x)
	case "floor":
		return tFP("fp.roundToIntegral", SFP, &Term{op: "const", sort: SFP, raw: "RTN", size: 1}, x)
	case "ceil":
		return tFP("fp.roundToIntegral", SFP, &Term{op: "const", sort: SFP, raw: "RTP", size: 1}, x)
	case "trunc":
		return tFP("fp.roundToIntegral", SFP, &Term{op: "const", sort: SFP, raw: "RTZ", size: 1}, x)
	case "round":
		return tFP("fp.roundToIntegral", SFP, &Term{op: "const", sort: SFP, raw: "RNA", size: 1}, x)
	}
	panic(engineError{"fpUn " + op})
}

// opaqueFloatFn: the result of a library float function that is not
// interpreted: a fresh float64 variable per distinct argument tuple (the same
// argument terms give the same result on a path). This over-approximates the
// function (any float64 is possible); a counterexample that depends on it is
// confirmed or refuted by the native replay.
func (w *Worker) opaqueFloatFn(name string, args ...*Term) Value {
	w.stub(name + " (uninterpreted: arbitrary float64 per distinct argument)")
	p := w.path
	key := name
	for _, a := range args {
		h1, h2 := a.hash()
		key += fmt.Sprintf("/%x.%x", h1, h2)
	}
	if p.opaque == nil {
		p.opaque = map[string]*Term{}
	}
	if t, ok := p.opaque[key]; ok {
		return t
	}
	t := p.freshFP()
	p.opaque[key] = t
	return t
}

// repeatCap: strings.Repeat results longer than this many copies are a
// memory question, not a crash question; such paths end as "outside".
const repeatCap = 3

func init() {
	intrinsics["strings.Repeat"] = func(fr *frame, a []Value) (Value, bool) {
		w := fr.w
		p := w.path
		s := w.cells(a[0].(Str))
		n := int64(len(s.b))
		cnt := liftInt(a[1], ik64)
		if p.Branch(tLt(cnt, intConst(0))) {
			panic(targetPanic{v: Iface{t: types.Typ[types.String], v: mkStr("strings: negative Repeat count")}, where: "strings.Repeat"})
		}
		if n > 0 && p.Branch(tGt(cnt, intConst(math.MaxInt64/n))) {
			panic(targetPanic{v: Iface{t: types.Typ[types.String], v: mkStr("strings: Repeat output length overflow")}, where: "strings.Repeat"})
		}
		if n == 0 {
			return Str{}, true
		}
		if cnt.isConst() && cnt.val.IsInt64() && cnt.val.Int64()*n <= 4096 {
			// a concrete, small result: just build it
		} else if p.Branch(tGt(cnt, intConst(repeatCap))) {
			w.stub("strings.Repeat with more than 3 copies: path ended (memory use is outside the claim)")
			panic(pathEnd{"strings.Repeat beyond the cap"})
		}
		c := w.concInt(lowerIntAny(cnt))
		out := make([]Value, 0, int(c)*int(n))
		for i := int64(0); i < c; i++ {
			out = append(out, s.b...)
		}
		return Str{b: out}, true
	}
}

// time.Now: an arbitrary non-decreasing clock with one-second resolution
// (wall = 0, ext = seconds since year 1, no monotonic reading, loc = nil/UTC);
// the real bodies of Unix, Sub, Since, Before, After run on top of it.
func init() {
	reg("time.Now", func(fr *frame, a []Value) Value {
		w := fr.w
		p := w.path
		w.stub("time.Now: arbitrary non-decreasing clock (whole seconds)")
		lo := big.NewInt(62135596800 + 1000000000) // after 2001
		hi := big.NewInt(62135596800 + 4000000000) // before 2096
		t := p.freshIntRange(lo, hi)
		if p.lastClock != nil {
			p.assertTerm(tGe(t, p.lastClock))
		}
		p.lastClock = t
		return Struct{int64(0), t, (*Value)(nil)}
	})
	reg("time.Sleep", func(fr *frame, a []Value) Value { fr.w.stub("time.Sleep: returns at once"); return nil })
	reg("time.After", func(fr *frame, a []Value) Value {
		w := fr.w
		w.chanCtr++
		c := &Chan{cap: 1, id: w.chanCtr}
		if w.sched == nil || w.sched.timers > 0 {
			if w.sched != nil {
				w.sched.timers--
			}
			c.buf = []Value{Struct{int64(0), int64(0), (*Value)(nil)}}
			w.stub("time.After: fires (readable at once)")
		} else {
			w.stub("time.After: beyond the timer bound of the path: never fires")
		}
		return c
	})
	reg("os/signal.Notify", func(fr *frame, a []Value) Value { fr.w.stub("signal.Notify: no signal arrives"); return nil })
	reg("time.runtimeNano", func(fr *frame, a []Value) Value { return int64(1000000000) })
}

// rare/pkg/logger: log output is not the subject of any property; the
// message is recorded as a ghost note, Fatal* ends the program like os.Exit.
func init() {
	for _, n := range []string{"Println", "Print", "Printf"} {
		name := n
		reg("rare/pkg/logger."+name, func(fr *frame, a []Value) Value {
			fr.w.stub("logger." + name + ": message dropped")
			return nil
		})
	}
	for _, n := range []string{"Fatalln", "Fatal", "Fatalf"} {
		name := n
		reg("rare/pkg/logger."+name, func(fr *frame, a []Value) Value {
			panic(targetPanic{v: Iface{t: types.Typ[types.String], v: mkStr("logger." + name + " (process exit)")}, where: "logger." + name})
		})
	}
}
