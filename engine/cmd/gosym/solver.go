package main

// Persistent SMT solver processes (z3-new -in, cvc5 --incremental), driven
// with push/pop. Any "(error" line or "unknown" is reported as inconclusive.

import (
	"bufio"
	"fmt"
	"io"
	"math"
	"math/big"
	"os/exec"
	"strings"
	"sync"
	"time"
)

type Verdict int

const (
	Sat Verdict = iota
	Unsat
	Unknown
)

func (v Verdict) String() string { return [...]string{"sat", "unsat", "unknown"}[v] }

type Solver struct {
	name    string
	cmd     *exec.Cmd
	in      io.WriteCloser
	out     *bufio.Reader
	queries int
	nSat    int
	nUnsat  int
	nUnk    int
	elapsed time.Duration
	log     io.Writer
	lastErr string

	timeoutMs int
	killed    bool        // set by the watchdog
	kills     int         // queries abandoned by the watchdog
	onRestart func()      // re-establishes the solver context after a restart
	tempPush  bool        // a query-local (push 1) is open
}

func startSolver(kind string, timeoutMs int) (*Solver, error) {
	s := &Solver{name: kind, timeoutMs: timeoutMs}
	if err := s.spawn(); err != nil {
		return nil, err
	}
	return s, nil
}

func (s *Solver) spawn() error {
	kind, timeoutMs := s.name, s.timeoutMs
	var cmd *exec.Cmd
	switch kind {
	case "z3":
		cmd = exec.Command("z3-new", "-in", fmt.Sprintf("-t:%d", timeoutMs))
	case "cvc5":
		cmd = exec.Command("cvc5", "--incremental", "--produce-models", "--lang=smt2", fmt.Sprintf("--tlimit-per=%d", timeoutMs))
	default:
		return fmt.Errorf("unknown solver %q", kind)
	}
	in, err := cmd.StdinPipe()
	if err != nil {
		return err
	}
	outp, err := cmd.StdoutPipe()
	if err != nil {
		return err
	}
	cmd.Stderr = cmd.Stdout
	if err := cmd.Start(); err != nil {
		return err
	}
	s.cmd, s.in, s.out = cmd, in, bufio.NewReaderSize(outp, 1<<16)
	if kind == "cvc5" {
		s.send("(set-logic ALL)\n")
	}
	s.send("(set-option :produce-models true)\n")
	return nil
}

func (s *Solver) send(txt string) {
	if s.log != nil {
		io.WriteString(s.log, txt)
	}
	io.WriteString(s.in, txt)
}

func (s *Solver) close() {
	s.in.Close()
	done := make(chan struct{})
	go func() { s.cmd.Wait(); close(done) }()
	select {
	case <-done:
	case <-time.After(2 * time.Second):
		s.cmd.Process.Kill()
	}
}

func (s *Solver) checkSat() Verdict {
	s.queries++
	t0 := time.Now()
	s.send("(check-sat)\n")
	v := Unknown
	// watchdog: the solver's own per-query limit is a soft one; a query that ignores it is abandoned
	proc := s.cmd.Process
	var mu sync.Mutex
	fired := false
	wd := time.AfterFunc(time.Duration(2*s.timeoutMs+5000)*time.Millisecond, func() {
		mu.Lock()
		fired = true
		mu.Unlock()
		proc.Kill()
	})
	defer func() {
		wd.Stop()
	}()
	for {
		line, err := s.out.ReadString('\n')
		if err != nil {
			mu.Lock()
			f := fired
			mu.Unlock()
			s.lastErr = "solver died: " + err.Error()
			if !f {
				wd.Stop()
				s.cmd.Wait()
				s.lastErr += " (" + s.cmd.ProcessState.String() + ")"
				// restart so that later paths have a working back end
				if s.spawn() == nil && s.onRestart != nil {
					s.onRestart()
					if s.tempPush {
						s.send("(push 1)\n")
					}
				}
			}
			break
		}
		line = strings.TrimSpace(line)
		if line == "" {
			continue
		}
		if line == "sat" {
			v = Sat
			break
		}
		if line == "unsat" {
			v = Unsat
			break
		}
		if line == "unknown" || strings.HasPrefix(line, "timeout") {
			v = Unknown
			break
		}
		if strings.HasPrefix(line, "(error") {
			s.lastErr = line
			// keep reading: the verdict line still follows, but the answer is not trusted
			continue
		}
		// some other output (warnings): ignore
	}
	s.elapsed += time.Since(t0)
	wd.Stop()
	mu.Lock()
	wasKilled := fired
	mu.Unlock()
	if wasKilled {
		s.cmd.Wait()
		s.kills++
		s.lastErr = ""
		v = Unknown
		if err := s.spawn(); err != nil {
			s.lastErr = "cannot restart the solver: " + err.Error()
		} else if s.onRestart != nil {
			s.onRestart()
			if s.tempPush {
				s.send("(push 1)\n")
			}
		}
	}
	if s.lastErr != "" {
		v = Unknown
	}
	switch v {
	case Sat:
		s.nSat++
	case Unsat:
		s.nUnsat++
	default:
		s.nUnk++
	}
	return v
}

// readSexp reads one balanced s-expression from the solver.
func (s *Solver) readSexp() (string, error) {
	var sb strings.Builder
	depth := 0
	started := false
	inStr := false
	for {
		c, err := s.out.ReadByte()
		if err != nil {
			return sb.String(), err
		}
		if !started {
			if c == ' ' || c == '\n' || c == '\r' || c == '\t' {
				continue
			}
			started = true
			if c != '(' {
				// atom: read to end of line
				sb.WriteByte(c)
				rest, _ := s.out.ReadString('\n')
				sb.WriteString(strings.TrimSpace(rest))
				return sb.String(), nil
			}
		}
		sb.WriteByte(c)
		if inStr {
			if c == '"' {
				inStr = false
			}
			continue
		}
		switch c {
		case '"':
			inStr = true
		case '(':
			depth++
		case ')':
			depth--
			if depth == 0 {
				return sb.String(), nil
			}
		}
	}
}

type sexp struct {
	atom string
	list []*sexp
}

func parseSexp(s string) *sexp {
	pos := 0
	var parse func() *sexp
	parse = func() *sexp {
		for pos < len(s) && (s[pos] == ' ' || s[pos] == '\n' || s[pos] == '\t' || s[pos] == '\r') {
			pos++
		}
		if pos >= len(s) {
			return nil
		}
		if s[pos] == '(' {
			pos++
			e := &sexp{list: []*sexp{}}
			for {
				for pos < len(s) && (s[pos] == ' ' || s[pos] == '\n' || s[pos] == '\t' || s[pos] == '\r') {
					pos++
				}
				if pos >= len(s) {
					return e
				}
				if s[pos] == ')' {
					pos++
					return e
				}
				e.list = append(e.list, parse())
			}
		}
		st := pos
		for pos < len(s) && !strings.ContainsRune(" \n\t\r()", rune(s[pos])) {
			pos++
		}
		return &sexp{atom: s[st:pos]}
	}
	return parse()
}

func (e *sexp) String() string {
	if e.list == nil {
		return e.atom
	}
	parts := make([]string, len(e.list))
	for i, x := range e.list {
		parts[i] = x.String()
	}
	return "(" + strings.Join(parts, " ") + ")"
}

// ModelVal is the value of one nondet variable in a counterexample.
type ModelVal struct {
	I *big.Int
	F float64
	B bool
}

func sexpInt(e *sexp) (*big.Int, bool) {
	if e.list == nil {
		v, ok := new(big.Int).SetString(e.atom, 10)
		return v, ok
	}
	if len(e.list) == 2 && e.list[0].atom == "-" {
		v, ok := sexpInt(e.list[1])
		if !ok {
			return nil, false
		}
		return new(big.Int).Neg(v), true
	}
	return nil, false
}

func sexpFloat(e *sexp) (float64, bool) {
	if e.list == nil {
		return 0, false
	}
	l := e.list
	if len(l) == 4 && l[0].atom == "fp" {
		bits := func(a string) (uint64, int) {
			if strings.HasPrefix(a, "#b") {
				var v uint64
				for _, c := range a[2:] {
					v = v<<1 | uint64(c-'0')
				}
				return v, len(a) - 2
			}
			if strings.HasPrefix(a, "#x") {
				var v uint64
				fmt.Sscanf(a[2:], "%x", &v)
				return v, 4 * (len(a) - 2)
			}
			return 0, 0
		}
		s, _ := bits(l[1].atom)
		e2, _ := bits(l[2].atom)
		m, _ := bits(l[3].atom)
		return math.Float64frombits(s<<63 | e2<<52 | m), true
	}
	if len(l) == 4 && l[0].atom == "_" {
		switch l[1].atom {
		case "+zero":
			return 0, true
		case "-zero":
			return math.Copysign(0, -1), true
		case "+oo":
			return math.Inf(1), true
		case "-oo":
			return math.Inf(-1), true
		case "NaN":
			return math.NaN(), true
		}
	}
	return 0, false
}

// getValues returns the model values of the given variables.
func (s *Solver) getValues(vars []*Term) (map[string]ModelVal, error) {
	res := map[string]ModelVal{}
	if len(vars) == 0 {
		return res, nil
	}
	var sb strings.Builder
	sb.WriteString("(get-value (")
	for _, v := range vars {
		sb.WriteString(v.raw)
		sb.WriteByte(' ')
	}
	sb.WriteString("))\n")
	s.send(sb.String())
	txt, err := s.readSexp()
	if err != nil {
		return nil, err
	}
	if strings.HasPrefix(txt, "(error") {
		return nil, fmt.Errorf("%s", txt)
	}
	e := parseSexp(txt)
	if e == nil || e.list == nil {
		return nil, fmt.Errorf("bad get-value answer %q", txt)
	}
	for _, pair := range e.list {
		if len(pair.list) != 2 {
			continue
		}
		name := pair.list[0].atom
		val := pair.list[1]
		var mv ModelVal
		if val.list == nil && (val.atom == "true" || val.atom == "false") {
			mv.B = val.atom == "true"
			if mv.B {
				mv.I = big.NewInt(1)
			} else {
				mv.I = big.NewInt(0)
			}
		} else if iv, ok := sexpInt(val); ok {
			mv.I = iv
		} else if f, ok := sexpFloat(val); ok {
			mv.F = f
		} else {
			return nil, fmt.Errorf("cannot parse model value %s", val)
		}
		res[name] = mv
	}
	return res, nil
}

func fpLiteral(f float64) string {
	b := math.Float64bits(f)
	if math.IsNaN(f) {
		return "(_ NaN 11 53)"
	}
	return fmt.Sprintf("(fp #b%01b #b%011b #b%052b)", b>>63, (b>>52)&0x7ff, b&((1<<52)-1))
}
