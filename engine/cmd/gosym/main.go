package main

// gosym: bounded symbolic execution of Go SSA with SMT back ends.
//
//   gosym -dir /repo -overlay ov.json -pkg rare/pkg/readahead -harness H04Imm,... -out res.json

import (
	"encoding/json"
	"flag"
	"fmt"
	"go/types"
	"os"
	"runtime/debug"
	"sort"
	"strings"
	"sync"
	"time"

	"golang.org/x/tools/go/packages"
	"golang.org/x/tools/go/ssa"
	"golang.org/x/tools/go/ssa/ssautil"
)

type HarnessResult struct {
	Harness    string             `json:"harness"`
	Verdict    string             `json:"verdict"` // holds | violated | inconclusive
	Reason     string             `json:"reason,omitempty"`
	Paths      int                `json:"paths"`
	PathsOK    int                `json:"paths_completed"`
	PathsNT    int                `json:"paths_nontrivial"`
	PathsEnded int                `json:"paths_assume_ended"`
	PathsErr   int                `json:"paths_error"`
	PathsBudg  int                `json:"paths_budget"`
	Reached    int                `json:"reach_witness_paths"`
	Asserts    int                `json:"asserts_checked"`
	AssertsSym int                `json:"asserts_symbolic"`
	Branches   int                `json:"branches"`
	Forks      int                `json:"forks"`
	Steps      int64              `json:"ssa_instructions"`
	Queries    int                `json:"queries"`
	QSat       int                `json:"q_sat"`
	QUnsat     int                `json:"q_unsat"`
	QUnknown   int                `json:"q_unknown"`
	SolverS    float64            `json:"solver_s"`
	Cross      int                `json:"cross_checks"`
	CrossBad   int                `json:"cross_disagreements"`
	Escalated  int                `json:"assert_queries_escalated,omitempty"`
	EscDecided int                `json:"assert_queries_escalated_decided,omitempty"`
	WallS      float64            `json:"wall_s"`
	Errors     map[string]int     `json:"errors,omitempty"`
	Funcs      []string           `json:"functions_encoded"`
	Stubs      map[string]int     `json:"stubs_hit,omitempty"`
	Samples    []string           `json:"samples"`
	Violations []Violation        `json:"violations,omitempty"`
	Witnesses  []Violation        `json:"witnesses,omitempty"`
	InitSkip   []string           `json:"init_skipped,omitempty"`
	Notes      map[string]int     `json:"paths_by_note,omitempty"`
	NoteErr    map[string]int     `json:"errors_by_note,omitempty"`
	NoteSolver map[string]float64 `json:"solver_s_by_note,omitempty"`
}

var (
	flagDir      = flag.String("dir", "/repo", "module directory")
	flagOverlay  = flag.String("overlay", "", "go build overlay json")
	flagPkg      = flag.String("pkg", "", "package path of the harnesses")
	flagHarness  = flag.String("harness", "", "comma separated harness function names")
	flagOut      = flag.String("out", "", "result json")
	flagWorkers  = flag.Int("workers", 8, "worker count")
	flagSolver   = flag.String("solver", "z3", "primary back end: z3 | cvc5")
	flagCross    = flag.String("cross", "", "secondary back end for cross-checking ('' = none)")
	flagCrossAll = flag.Bool("cross-all", false, "cross-check every query")
	flagTimeout  = flag.Int("timeout-ms", 20000, "per-query solver timeout")
	flagMaxPaths = flag.Int("max-paths", 200000, "path budget per harness")
	flagMaxSteps = flag.Int64("max-steps", 5000000, "SSA instruction budget per path")
	flagDeadline = flag.Int("deadline-s", 900, "wall-clock budget per harness")
	flagTrace    = flag.String("trace", "", "write solver traffic of worker 0 to this file")
	flagVerbose  = flag.Bool("v", false, "verbose")
	flagRedirect = flag.String("redirect", "", "semicolon separated callee=harnessFunc pairs: calls to callee run the harness function instead")
	flagConcrete = flag.String("concrete", "", "replay vector json: run with all nondets fixed (translator validation)")
)

var trailLog *os.File

func main() {
	flag.Parse()
	if f := os.Getenv("GOSYM_TRAILS"); f != "" {
		trailLog, _ = os.Create(f)
	}
	debug.SetGCPercent(400)
	t0 := time.Now()
	cfg := &packages.Config{Mode: packages.LoadAllSyntax, Dir: *flagDir, Env: append(os.Environ(), "GOFLAGS=-mod=mod", "GOPROXY=off", "GOSUMDB=off", "GOTOOLCHAIN=local")}
	if *flagOverlay != "" {
		data, err := os.ReadFile(*flagOverlay)
		if err != nil {
			fatal(err)
		}
		var ov struct{ Replace map[string]string }
		if err := json.Unmarshal(data, &ov); err != nil {
			fatal(err)
		}
		cfg.Overlay = map[string][]byte{}
		for virt, real := range ov.Replace {
			b, err := os.ReadFile(real)
			if err != nil {
				fatal(err)
			}
			cfg.Overlay[virt] = b
		}
	}
	pkgs, err := packages.Load(cfg, *flagPkg, "rare/pkg/zzverif")
	if err != nil {
		fatal(err)
	}
	nerr := 0
	packages.Visit(pkgs, nil, func(p *packages.Package) {
		for _, e := range p.Errors {
			fmt.Fprintln(os.Stderr, "load error:", e)
			nerr++
		}
	})
	if nerr > 0 {
		fatal(fmt.Errorf("%d package load errors", nerr))
	}
	prog, spkgs := ssautil.AllPackages(pkgs, ssa.InstantiateGenerics)
	prog.Build()
	var hpkg, zpkg *ssa.Package
	for i, p := range pkgs {
		if p.PkgPath == *flagPkg {
			hpkg = spkgs[i]
		}
		if p.PkgPath == "rare/pkg/zzverif" {
			zpkg = spkgs[i]
		}
	}
	if hpkg == nil || zpkg == nil {
		fatal(fmt.Errorf("harness or zzverif package not loaded"))
	}
	for _, kv := range strings.Split(*flagRedirect, ";") {
		if kv == "" {
			continue
		}
		k, v, _ := strings.Cut(kv, "=")
		f := hpkg.Func(v)
		if f == nil {
			fatal(fmt.Errorf("redirect target %s not found in %s", v, hpkg.Pkg.Path()))
		}
		redirects[k] = f
	}
	loadS := time.Since(t0).Seconds()
	if *flagVerbose {
		fmt.Fprintf(os.Stderr, "loaded+built SSA in %.1fs\n", loadS)
	}

	// workers
	nw := *flagWorkers
	workers := make([]*Worker, nw)
	var wg sync.WaitGroup
	var initErr error
	var mu sync.Mutex
	for i := 0; i < nw; i++ {
		wg.Add(1)
		go func(i int) {
			defer wg.Done()
			w, err := newWorker(i, prog, hpkg, zpkg)
			mu.Lock()
			if err != nil && initErr == nil {
				initErr = err
			}
			workers[i] = w
			mu.Unlock()
		}(i)
	}
	wg.Wait()
	if initErr != nil {
		fatal(initErr)
	}
	if *flagVerbose {
		fmt.Fprintf(os.Stderr, "workers initialised at %.1fs\n", time.Since(t0).Seconds())
	}

	var results []HarnessResult
	for _, hn := range strings.Split(*flagHarness, ",") {
		hn = strings.TrimSpace(hn)
		if hn == "" {
			continue
		}
		fn := hpkg.Func(hn)
		if fn == nil {
			results = append(results, HarnessResult{Harness: hn, Verdict: "inconclusive", Reason: "harness function not found"})
			continue
		}
		results = append(results, runHarness(workers, hn, fn))
	}
	for _, w := range workers {
		w.solver.close()
		if w.cross != nil {
			w.cross.close()
		}
	}
	out, merr := json.MarshalIndent(map[string]interface{}{"results": results, "load_s": loadS, "wall_s": time.Since(t0).Seconds()}, "", " ")
	if merr != nil {
		fatal(merr)
	}
	if *flagOut != "" {
		os.WriteFile(*flagOut, out, 0o644)
	} else {
		os.Stdout.Write(out)
	}
}

func fatal(err error) {
	fmt.Fprintln(os.Stderr, "gosym:", err)
	os.Exit(3)
}

func newWorker(id int, prog *ssa.Program, hpkg, zpkg *ssa.Package) (w *Worker, err error) {
	w = &Worker{id: id, prog: prog, globals: map[*ssa.Global]*Value{}, constCache: map[*ssa.Const]Value{},
		fnInfos: map[*ssa.Function]*fnInfo{}, funcs: map[string]bool{}, stubs: map[string]int{}, zz: zpkg,
		initSkipped: map[string]bool{}, maxSteps: 50000000, onceDone: map[*Value]bool{}}
	w.rtErrType = types.NewNamed(types.NewTypeName(0, nil, "runtime.Error", nil), types.Typ[types.String], nil)
	if rt := prog.ImportedPackage("runtime"); rt != nil {
		if es := rt.Type("errorString"); es != nil {
			w.rtErrType = es.Type()
		}
	}
	w.solver, err = startSolver(*flagSolver, *flagTimeout)
	if err != nil {
		return nil, err
	}
	w.solver.onRestart = func() {
		for i, lv := range w.ctx.levels {
			if i > 0 {
				w.solver.send("(push 1)\n")
			}
			w.solver.send(lv.text.String())
		}
	}
	if *flagTrace != "" {
		name := *flagTrace
		if id > 0 {
			name += fmt.Sprintf(".%d", id)
		}
		f, _ := os.Create(name)
		w.solver.log = f
	}
	if *flagCross != "" {
		w.cross, err = startSolver(*flagCross, *flagTimeout)
		if err != nil {
			return nil, err
		}
		w.crossAll = *flagCrossAll
	}
	// os.Stdin/Stdout/Stderr: non-nil opaque files (package os is not initialised)
	if op := prog.ImportedPackage("os"); op != nil {
		for _, n := range []string{"Stdin", "Stdout", "Stderr"} {
			if g, ok := op.Members[n].(*ssa.Global); ok {
				f := new(Value)
				*f = zero(g.Type().(*types.Pointer).Elem().(*types.Pointer).Elem())
				*w.global(g) = f
			}
		}
	}
	// package initialisers, concretely
	w.ex = newExplorer("init", id+1, 1, time.Now().Add(time.Hour))
	w.path = w.newPath(nil)
	func() {
		defer func() {
			if r := recover(); r != nil {
				err = fmt.Errorf("package initialisation failed: %v", describePanic(r))
			}
		}()
		for _, pk := range []*ssa.Package{zpkg, hpkg} {
			if ini := pk.Func("init"); ini != nil {
				w.callSSA(nil, 0, ini, nil, nil)
			}
		}
	}()
	w.funcs = map[string]bool{}
	w.stubs = map[string]int{}
	w.initDone = true
	w.maxSteps = *flagMaxSteps
	return w, err
}

func describePanic(r interface{}) string {
	switch r := r.(type) {
	case engineError:
		return "engine: " + r.msg
	case targetPanic:
		return "panic: " + valString(r.v) + " at " + r.where
	case pathEnd:
		return "path end: " + r.reason
	case budgetEnd:
		return "budget: " + r.what
	case error:
		return r.Error() + "\n" + string(debug.Stack())
	}
	return fmt.Sprint(r) + "\n" + string(debug.Stack())
}

func runHarness(workers []*Worker, name string, fn *ssa.Function) HarnessResult {
	t0 := time.Now()
	ex := newExplorer(name, len(workers), *flagMaxPaths, t0.Add(time.Duration(*flagDeadline)*time.Second))
	var wg sync.WaitGroup
	for _, w := range workers {
		w.ex = ex
		w.funcs = map[string]bool{}
		w.stubs = map[string]int{}
		w.branches = 0
		w.unknownBranches = 0
		w.resetCtx()
		wg.Add(1)
		go func(w *Worker) {
			defer wg.Done()
			q0, s0, u0, k0, e0 := w.solver.queries, w.solver.nSat, w.solver.nUnsat, w.solver.nUnk, w.solver.elapsed
			kills0 := w.solver.kills
			for {
				it, ok := ex.take(w.id)
				if !ok {
					break
				}
				w.runPath(fn, it)
				ex.done()
			}
			ex.mu.Lock()
			ex.stats.Queries += w.solver.queries - q0
			ex.stats.QSat += w.solver.nSat - s0
			ex.stats.QUnsat += w.solver.nUnsat - u0
			ex.stats.QUnknown += w.solver.nUnk - k0
			ex.stats.SolverTime += w.solver.elapsed - e0
			ex.stats.Branches += w.branches
			for f := range w.funcs {
				ex.stats.Funcs[f] = true
			}
			for s, n := range w.stubs {
				ex.stats.Stubs[s] += n
			}
			if k := w.solver.kills - kills0; k > 0 {
				ex.stats.Stubs["solver query abandoned by the watchdog and treated as unknown"] += k
			}
			ex.mu.Unlock()
		}(w)
	}
	wg.Wait()
	st := &ex.stats
	r := HarnessResult{Harness: name, Paths: st.Paths, PathsOK: st.PathsOK, PathsNT: st.PathsNontrivial, PathsEnded: st.PathsAssumeEnd, PathsErr: st.PathsError,
		PathsBudg: st.PathsBudget, Reached: st.ReachWitness, Asserts: st.AssertsChecked, AssertsSym: st.AssertsSymbolic,
		Branches: st.Branches, Forks: st.Forks, Steps: st.Steps, Queries: st.Queries, QSat: st.QSat, QUnsat: st.QUnsat, QUnknown: st.QUnknown,
		SolverS: st.SolverTime.Seconds(), Cross: st.CrossChecks, CrossBad: st.CrossDisagree, Escalated: st.Escalated, EscDecided: st.EscalatedDecided, WallS: time.Since(t0).Seconds(),
		Errors: st.Errors, Stubs: st.Stubs, Samples: st.Samples, Violations: st.Violations, Witnesses: st.Witnesses, Notes: st.Notes, NoteErr: st.NoteErr, NoteSolver: st.NoteSolver}
	for f := range st.Funcs {
		r.Funcs = append(r.Funcs, f)
	}
	sort.Strings(r.Funcs)
	for p := range workers[0].initSkipped {
		r.InitSkip = append(r.InitSkip, p)
	}
	sort.Strings(r.InitSkip)
	switch {
	case len(st.Violations) > 0:
		r.Verdict = "violated"
	case st.PathsError > 0:
		r.Verdict, r.Reason = "inconclusive", "engine errors on some paths"
	case st.PathsBudget > 0:
		r.Verdict, r.Reason = "inconclusive", "BOUND-EXCEEDED: step/path/time budget exhausted"
	case st.CrossDisagree > 0:
		r.Verdict, r.Reason = "inconclusive", "back ends disagree"
	case st.QUnknown > 0 && workersUnknown(workers) > 0:
		r.Verdict, r.Reason = "holds", "some feasibility queries were unknown (branches kept: over-approximation)"
	case st.ReachWitness == 0:
		r.Verdict, r.Reason = "inconclusive", "vacuous: no path reached the end of the harness"
	case st.AssertsChecked == 0:
		r.Verdict, r.Reason = "inconclusive", "vacuous: no assertion discharged"
	default:
		r.Verdict = "holds"
	}
	if r.Verdict == "holds" && (st.ReachWitness == 0 || st.AssertsChecked == 0) {
		r.Verdict, r.Reason = "inconclusive", "vacuous"
	}
	return r
}

func workersUnknown(ws []*Worker) int {
	n := 0
	for _, w := range ws {
		n += w.unknownBranches
	}
	return n
}

func (w *Worker) runPath(fn *ssa.Function, item WorkItem) {
	// a back end that crashes (z3 occasionally dies under memory pressure) is restarted; the path is re-run
	for attempt := 0; ; attempt++ {
		again, taken := w.runPathOnce(fn, item, attempt < 2)
		if !again {
			return
		}
		// continue from the decisions already taken (their alternatives are queued already)
		item = WorkItem{trail: append([]Decision{}, taken...)}
	}
}

// runPathOnce explores one path; it returns true when the path ended because
// the solver process died and retry was allowed (nothing was recorded).
func (w *Worker) runPathOnce(fn *ssa.Function, item WorkItem, retry bool) (bool, []Decision) {
	ex := w.ex
	p := w.newPath(item.trail)
	w.path = p
	solver0 := w.solver.elapsed
	w.logging = true
	w.out = w.out[:0]
	w.mapOrderFork = false
	w.absFloatText = false
	w.loopBound = 0
	w.absFloatArith = false
	w.splitDiv = false
	w.usedSched = false
	w.boundedChans = false
	w.whereLog = w.whereLog[:0]
	w.opaqueParseFloat = false
	w.depth = 0
	w.solver.lastErr = ""
	outcome := "ok"
	var detail string
	func() {
		defer func() {
			if r := recover(); r != nil {
				switch r := r.(type) {
				case pathEnd:
					outcome, detail = "assume", r.reason
				case violationEnd:
					outcome = "violation"
				case engineError:
					outcome, detail = "error", r.msg
				case budgetEnd:
					outcome, detail = "budget", r.what
					if r.what == "step budget" {
						// possible non-termination: hand the inputs of this path to the native replay, which decides (hang = violation)
						func() {
							defer func() { recover() }()
							p.violation("hang", "step budget exhausted on this path: possible non-termination", "", nil)
						}()
					}
				case targetPanic:
					outcome = "violation"
					func() {
						defer func() {
							if r2 := recover(); r2 != nil {
								if pe, ok := r2.(pathEnd); ok {
									outcome, detail = "assume", pe.reason
								} else if ee, ok := r2.(engineError); ok {
									outcome, detail = "error", ee.msg
								} else {
									outcome, detail = "error", fmt.Sprint(r2)
								}
							}
						}()
						p.violation("panic", valString(r.v), r.where, nil)
					}()
				default:
					outcome, detail = "error", "engine crash: "+describePanic(r)
				}
			}
		}()
		defer w.schedTeardown()
		w.callSSA(nil, 0, fn, nil, nil)
	}()
	if outcome == "ok" && p.reached {
		// reachability witness: make sure this completed path is really feasible
		ex.mu.Lock()
		need := ex.stats.ReachWitness == 0
		wantWitness := len(ex.stats.Witnesses) < 3 && w.sched == nil && !w.usedSched
		ex.mu.Unlock()
		if need || wantWitness {
			func() {
				defer func() { recover() }()
				v, _ := p.check(trueT2(), true)
				if v != Sat {
					if need {
						p.reached = false
					}
					return
				}
				if wantWitness && len(p.nondets) > 0 {
					wit := Violation{Harness: ex.harness, Kind: "witness", Msg: "completed path", Trail: trailString(p.taken), Vector: p.vectorFrom(w.lastVals)}
					ex.mu.Lock()
					if len(ex.stats.Witnesses) < 3 {
						ex.stats.Witnesses = append(ex.stats.Witnesses, wit)
					}
					ex.mu.Unlock()
				}
			}()
		}
	}
	func() {
		defer func() { recover() }()
		p.finish()
	}()
	w.rollback()
	w.logging = false
	if retry && outcome == "error" && strings.Contains(detail, "solver died") {
		ex.mu.Lock()
		ex.stats.SolverRestarts++
		ex.mu.Unlock()
		w.solver.lastErr = ""
		return true, p.taken
	}
	ex.mu.Lock()
	st := &ex.stats
	st.Paths++
	if len(p.ghost) > 0 {
		if st.Notes == nil {
			st.Notes = map[string]int{}
			st.NoteErr = map[string]int{}
		}
		st.Notes[p.ghost[0]]++
		if st.NoteSolver == nil {
			st.NoteSolver = map[string]float64{}
		}
		st.NoteSolver[p.ghost[0]] += (w.solver.elapsed - solver0).Seconds()
		if outcome == "error" || outcome == "budget" {
			st.NoteErr[p.ghost[0]]++
		}
	}
	st.Steps += p.steps
	st.AssertsChecked += p.asserts
	st.AssertsSymbolic += p.symAsrt
	switch outcome {
	case "ok":
		st.PathsOK++
		if p.reached {
			st.ReachWitness++
			if p.asserts > 0 && (len(p.taken) > 0 || p.symAsrt > 0) {
				st.PathsNontrivial++
			}
		}
		if trailLog != nil {
			fmt.Fprintf(trailLog, "%s %s\n", outcome, trailString(p.taken))
			for _, wl := range w.whereLog {
				fmt.Fprintf(trailLog, "   @ %s\n", wl)
			}
		}
		if len(st.Samples) < 5 {
			st.Samples = append(st.Samples, fmt.Sprintf("trail=%s nondets=%d asserts=%d(sym %d) steps=%d", trailString(p.taken), len(p.nondets), p.asserts, p.symAsrt, p.steps))
		}
	case "assume":
		st.PathsAssumeEnd++
	case "violation":
		st.PathsViolation++
	case "error":
		st.PathsError++
		if *flagVerbose && strings.HasPrefix(detail, "engine crash") {
			fmt.Fprintln(os.Stderr, detail)
		}
		if len(detail) > 300 {
			detail = detail[:300]
		}
		st.Errors[detail]++
		if len(st.Errors) > 20 || st.PathsError > 200 {
			ex.stop = true
			ex.cond.Broadcast()
		}
	case "budget":
		st.PathsBudget++
		st.Errors["budget: "+detail]++
		ex.stop = true
		ex.cond.Broadcast()
	}
	if st.Paths >= ex.maxPaths || time.Now().After(ex.deadline) {
		if ex.queued() > 0 || ex.active > 1 {
			st.PathsBudget++
			st.Errors["budget: path/time budget"]++
		}
		ex.stop = true
		ex.cond.Broadcast()
	}
	ex.mu.Unlock()
	if *flagVerbose && outcome != "ok" && outcome != "assume" {
		fmt.Fprintf(os.Stderr, "[%s] path %s: %s %s\n", ex.harness, trailString(p.taken), outcome, detail)
	}
	return false, nil
}
