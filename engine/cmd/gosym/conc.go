package main

// Channels, goroutines and sync primitives.
//
// Sequential mode (default): a channel is an unbounded ghost queue, `go f()`
// runs f to completion at the go statement, locks are no-ops. Tier B
// (scheduler != nil) is implemented in sched.go.

import (
	"fmt"
	"go/token"
	"go/types"

	"golang.org/x/tools/go/ssa"
)

const tokenADD = token.ADD

func (w *Worker) visible(fr *frame, what string) {
	if w.sched != nil && w.sched.level >= 2 {
		w.yieldPoint(nil, what)
	}
}

// atomicEdge: a sync/atomic operation on address p is an acquire+release point (and its own access is not a race candidate)
func (w *Worker) atomicEdge(p Value) {
	if w.sched.raceOn() {
		if vp, ok := p.(*Value); ok {
			w.raceAcquire(atomicAddr{vp})
			w.raceRelease(atomicAddr{vp}, true)
		}
	}
}

type atomicAddr struct{ p *Value }

func (w *Worker) syncOp(fr *frame, name string, a []Value) Value {
	if w.sched != nil {
		return w.syncOpSched(fr, name, a)
	}
	return nil
}

func (w *Worker) goStmt(fr *frame, instr *ssa.Go, fn Value, args []Value) {
	if w.sched != nil {
		w.goStmtSched(fr, instr, fn, args)
		return
	}
	w.stub("go statement: callee run to completion at the go statement (sequential mode)")
	w.call(fr, instr.Pos(), fn, args)
}

func (w *Worker) chanSend(fr *frame, c *Chan, v Value, pos token.Pos) {
	if w.sched != nil {
		w.chanSendSched(fr, c, v, pos)
		return
	}
	if c == nil {
		panic(engineError{"send on nil channel blocks forever"})
	}
	if c.closed {
		panic(targetPanic{v: Iface{t: w.rtErrType, v: mkStr("send on closed channel")}, where: fr.where(pos)})
	}
	if w.boundedChans && c.cap > 0 && len(c.buf) >= c.cap {
		// run-to-completion order: every goroutine that could receive has already finished, so this send blocks forever
		panic(targetPanic{v: Iface{t: w.rtErrType, v: mkStr("all goroutines are asleep - deadlock (send on a full channel that nobody will drain)")}, where: fr.where(pos)})
	}
	old := c.buf
	c.buf = append(c.buf[:len(c.buf):len(c.buf)], copyVal(v))
	if w.logging {
		w.mapUndo = append(w.mapUndo, func() { c.buf = old })
	}
}

func (w *Worker) chanRecv(fr *frame, c *Chan, commaOk bool, t types.Type, pos token.Pos) Value {
	if w.sched != nil {
		return w.chanRecvSched(fr, c, commaOk, t, pos)
	}
	if c == nil {
		panic(engineError{"receive from nil channel blocks forever"})
	}
	var elem types.Type
	if commaOk {
		elem = t.(*types.Tuple).At(0).Type()
	} else {
		elem = t
	}
	if len(c.buf) == 0 {
		if c.closed {
			if commaOk {
				return Tuple{zero(elem), false}
			}
			return zero(elem)
		}
		panic(engineError{"receive would block (sequential mode): " + fr.where(pos)})
	}
	old := c.buf
	v := c.buf[0]
	c.buf = c.buf[1:]
	if w.logging {
		w.mapUndo = append(w.mapUndo, func() { c.buf = old })
	}
	if commaOk {
		return Tuple{v, true}
	}
	return v
}

func (w *Worker) chanClose(fr *frame, c *Chan, pos token.Pos) {
	if w.sched != nil {
		w.yieldPoint(nil, "close")
		w.raceRelease(chanClose{c}, false)
	}
	if c == nil {
		panic(targetPanic{v: Iface{t: w.rtErrType, v: mkStr("close of nil channel")}, where: fr.where(pos)})
	}
	if c.closed {
		panic(targetPanic{v: Iface{t: w.rtErrType, v: mkStr("close of closed channel")}, where: fr.where(pos)})
	}
	c.closed = true
	if w.logging {
		w.mapUndo = append(w.mapUndo, func() { c.closed = false })
	}
}

// selectOp in sequential mode: the enabled cases are those that can proceed
// now; the choice among them is nondeterministic (forked).
func (w *Worker) selectOp(fr *frame, instr *ssa.Select) Value {
	if w.sched != nil {
		return w.selectSched(fr, instr)
	}
	var enabled []int
	for i, st := range instr.States {
		c, _ := fr.get(st.Chan).(*Chan)
		if c == nil {
			continue
		}
		if st.Dir == types.RecvOnly {
			if len(c.buf) > 0 || c.closed {
				enabled = append(enabled, i)
			}
		} else {
			enabled = append(enabled, i)
		}
	}
	chosen := -1
	if len(enabled) == 0 {
		if instr.Blocking {
			panic(engineError{"select would block (sequential mode): " + fr.where(instr.Pos())})
		}
	} else {
		chosen = enabled[w.path.Choice(len(enabled))]
	}
	r := Tuple{int64(chosen), false}
	for i, st := range instr.States {
		if st.Dir == types.RecvOnly {
			elem := st.Chan.Type().Underlying().(*types.Chan).Elem()
			if i == chosen {
				c := fr.get(st.Chan).(*Chan)
				res := w.chanRecv(fr, c, true, types.NewTuple(types.NewVar(0, nil, "", elem), types.NewVar(0, nil, "", types.Typ[types.Bool])), instr.Pos()).(Tuple)
				r[1] = res[1]
				r = append(r, res[0])
			} else {
				r = append(r, zero(elem))
			}
		} else if i == chosen {
			w.chanSend(fr, fr.get(st.Chan).(*Chan), fr.get(st.Send), instr.Pos())
		}
	}
	return r
}

// permuteMapOrder forks over iteration orders when the harness asked for it.
func (w *Worker) permuteMapOrder(it *mapIter) {
	n := len(it.order)
	if !w.mapOrderFork || n < 2 {
		return
	}
	if n <= 3 {
		perms := permutations(n)
		p := perms[w.path.Choice(len(perms))]
		no := make([]*mapEntry, n)
		for i, j := range p {
			no[i] = it.order[j]
		}
		it.order = no
		return
	}
	k := w.path.Choice(n)
	it.order = append(append([]*mapEntry{}, it.order[k:]...), it.order[:k]...)
}

func permutations(n int) [][]int {
	if n == 1 {
		return [][]int{{0}}
	}
	var out [][]int
	for _, p := range permutations(n - 1) {
		for i := 0; i <= len(p); i++ {
			q := append(append(append([]int{}, p[:i]...), n-1), p[i:]...)
			out = append(out, q)
		}
	}
	return out
}

var _ = fmt.Sprint
