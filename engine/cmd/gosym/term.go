package main

// Terms: the SMT side of symbolic values.
//
// Integers of every Go width are mathematical Ints that are kept inside
// the range of their Go type by an explicit wrap term (DESIGN 1.2); each
// Int term carries a conservative interval so that most wraps are elided.

import (
	"runtime/debug"
	"fmt"
	"math/big"
	"strconv"
	"strings"
	"sync/atomic"
)

type Sort int

const (
	SInt Sort = iota
	SBool
	SFP // float64
)

func (s Sort) String() string {
	switch s {
	case SInt:
		return "Int"
	case SBool:
		return "Bool"
	}
	return "(_ FloatingPoint 11 53)"
}

type Term struct {
	op     string // "const", "var", or SMT operator
	args   []*Term
	sort   Sort
	val    *big.Int // const Int
	bval   bool     // const Bool
	raw    string   // const FP literal text, or var name
	lo, hi *big.Int // interval for Int terms (nil = unbounded)
	id     int
	size   int
	h1, h2 uint64 // structural hash (lazy)
	alias  *Term  // printed instead of this term (opaque stand-in, see intToFloat)
	hashed bool
}

func mix(h, x uint64) uint64 {
	h ^= x + 0x9e3779b97f4a7c15 + (h << 6) + (h >> 2)
	h *= 0xff51afd7ed558ccd
	h ^= h >> 33
	return h
}

func strHash(s string, seed uint64) uint64 {
	h := seed
	for i := 0; i < len(s); i++ {
		h = (h ^ uint64(s[i])) * 0x100000001b3
	}
	return h
}

// hash returns the 128-bit structural hash of t.
func (t *Term) hash() (uint64, uint64) {
	if t.hashed {
		return t.h1, t.h2
	}
	h1 := strHash(t.op, 0xcbf29ce484222325)
	h2 := strHash(t.op, 0x84222325cbf29ce4)
	h1 = mix(h1, uint64(t.sort))
	switch t.op {
	case "const":
		switch t.sort {
		case SInt:
			vs := t.val.String()
			h1, h2 = mix(h1, strHash(vs, 1)), mix(h2, strHash(vs, 2))
		case SBool:
			if t.bval {
				h1, h2 = mix(h1, 7), mix(h2, 9)
			}
		default:
			h1, h2 = mix(h1, strHash(t.raw, 1)), mix(h2, strHash(t.raw, 2))
		}
	case "var":
		h1, h2 = mix(h1, strHash(t.raw, 3)), mix(h2, strHash(t.raw, 4))
	}
	for _, a := range t.args {
		a1, a2 := a.hash()
		h1, h2 = mix(h1, a1), mix(h2, a2+1)
	}
	t.h1, t.h2, t.hashed = h1, h2, true
	return h1, h2
}

var termCounter int64

func newTerm(op string, sort Sort, args ...*Term) *Term {
	id := atomic.AddInt64(&termCounter, 1)
	sz := 1
	for _, a := range args {
		sz += a.size
	}
	return &Term{op: op, sort: sort, args: args, id: int(id), size: sz}
}

func bigOf(v int64) *big.Int { return big.NewInt(v) }

var (
	big0 = big.NewInt(0)
	big1 = big.NewInt(1)
)

func pow2(k uint) *big.Int { return new(big.Int).Lsh(big1, k) }

func intConstBig(v *big.Int) *Term {
	t := newTerm("const", SInt)
	t.val = v
	t.lo, t.hi = v, v
	return t
}
func intConst(v int64) *Term { return intConstBig(big.NewInt(v)) }

var trueT, falseT *Term

func init() {
	trueT = newTerm("const", SBool)
	trueT.bval = true
	falseT = newTerm("const", SBool)
}

func boolConst(b bool) *Term {
	if b {
		return trueT
	}
	return falseT
}

func (t *Term) isConst() bool { return t.op == "const" }

func newVar(name string, sort Sort, lo, hi *big.Int) *Term {
	t := newTerm("var", sort)
	t.raw = name
	t.lo, t.hi = lo, hi
	return t
}

// ---- interval helpers (nil = infinite) ----

func addB(a, b *big.Int) *big.Int {
	if a == nil || b == nil {
		return nil
	}
	return new(big.Int).Add(a, b)
}
func subB(a, b *big.Int) *big.Int {
	if a == nil || b == nil {
		return nil
	}
	return new(big.Int).Sub(a, b)
}
func minB(xs ...*big.Int) *big.Int {
	var m *big.Int
	for _, x := range xs {
		if x == nil {
			return nil
		}
		if m == nil || x.Cmp(m) < 0 {
			m = x
		}
	}
	return m
}
func maxB(xs ...*big.Int) *big.Int {
	var m *big.Int
	for _, x := range xs {
		if x == nil {
			return nil
		}
		if m == nil || x.Cmp(m) > 0 {
			m = x
		}
	}
	return m
}

// ---- integer constructors with folding ----

func tAdd(a, b *Term) *Term {
	if a.isConst() && b.isConst() {
		return intConstBig(new(big.Int).Add(a.val, b.val))
	}
	if a.isConst() && a.val.Sign() == 0 {
		return b
	}
	if b.isConst() && b.val.Sign() == 0 {
		return a
	}
	t := newTerm("+", SInt, a, b)
	t.lo, t.hi = addB(a.lo, b.lo), addB(a.hi, b.hi)
	return t
}

func tSub(a, b *Term) *Term {
	if a.isConst() && b.isConst() {
		return intConstBig(new(big.Int).Sub(a.val, b.val))
	}
	if b.isConst() && b.val.Sign() == 0 {
		return a
	}
	t := newTerm("-", SInt, a, b)
	t.lo, t.hi = subB(a.lo, b.hi), subB(a.hi, b.lo)
	return t
}

func tNeg(a *Term) *Term { return tSub(intConst(0), a) }

func tMul(a, b *Term) *Term {
	if a.isConst() && b.isConst() {
		return intConstBig(new(big.Int).Mul(a.val, b.val))
	}
	if a.isConst() && a.val.Cmp(big1) == 0 {
		return b
	}
	if b.isConst() && b.val.Cmp(big1) == 0 {
		return a
	}
	if (a.isConst() && a.val.Sign() == 0) || (b.isConst() && b.val.Sign() == 0) {
		return intConst(0)
	}
	t := newTerm("*", SInt, a, b)
	if a.lo != nil && a.hi != nil && b.lo != nil && b.hi != nil {
		p := []*big.Int{new(big.Int).Mul(a.lo, b.lo), new(big.Int).Mul(a.lo, b.hi), new(big.Int).Mul(a.hi, b.lo), new(big.Int).Mul(a.hi, b.hi)}
		t.lo, t.hi = minB(p...), maxB(p...)
	}
	return t
}

// SMT-LIB div/mod (Euclidean). b must be known non-zero by the caller.
func tDivE(a, b *Term) *Term {
	if a.isConst() && b.isConst() && b.val.Sign() != 0 {
		q, _ := new(big.Int).DivMod(a.val, b.val, new(big.Int))
		return intConstBig(q)
	}
	t := newTerm("div", SInt, a, b)
	if b.isConst() && b.val.Sign() > 0 && a.lo != nil && a.hi != nil {
		lo, _ := new(big.Int).DivMod(a.lo, b.val, new(big.Int))
		hi, _ := new(big.Int).DivMod(a.hi, b.val, new(big.Int))
		t.lo, t.hi = lo, hi
	} else if a.lo != nil && a.hi != nil {
		m := maxB(new(big.Int).Abs(a.lo), new(big.Int).Abs(a.hi))
		t.lo, t.hi = new(big.Int).Neg(m), m
	}
	return t
}

func tModE(a, b *Term) *Term {
	if a.isConst() && b.isConst() && b.val.Sign() != 0 {
		_, m := new(big.Int).DivMod(a.val, b.val, new(big.Int))
		return intConstBig(m)
	}
	if b.isConst() && b.val.Sign() > 0 && a.lo != nil && a.hi != nil && a.lo.Sign() >= 0 && a.hi.Cmp(b.val) < 0 {
		return a
	}
	t := newTerm("mod", SInt, a, b)
	t.lo = big0
	if b.isConst() {
		t.hi = new(big.Int).Sub(new(big.Int).Abs(b.val), big1)
	} else if b.lo != nil && b.hi != nil {
		t.hi = maxB(new(big.Int).Abs(b.lo), new(big.Int).Abs(b.hi))
	}
	return t
}

// Go truncated division / remainder.
func tQuoT(a, b *Term) *Term {
	if a.lo != nil && a.lo.Sign() >= 0 {
		return tDivE(a, b)
	}
	if a.isConst() && b.isConst() {
		return intConstBig(new(big.Int).Quo(a.val, b.val))
	}
	r := tIte(tGe(a, intConst(0)), tDivE(a, b), tNeg(tDivE(tNeg(a), b)))
	return r
}

func tRemT(a, b *Term) *Term {
	if a.lo != nil && a.lo.Sign() >= 0 {
		return tModE(a, b)
	}
	if a.isConst() && b.isConst() {
		return intConstBig(new(big.Int).Rem(a.val, b.val))
	}
	return tIte(tGe(a, intConst(0)), tModE(a, b), tNeg(tModE(tNeg(a), b)))
}

func tIte(c, a, b *Term) *Term {
	if c.isConst() {
		if c.bval {
			return a
		}
		return b
	}
	if a == b {
		return a
	}
	if a.sort == SBool && a.isConst() && b.isConst() {
		if a.bval && !b.bval {
			return c
		}
		if !a.bval && b.bval {
			return tNot(c)
		}
	}
	if a.sort == SInt && a.isConst() && b.isConst() && a.val.Cmp(b.val) == 0 {
		return a
	}
	t := newTerm("ite", a.sort, c, a, b)
	if a.sort == SInt {
		t.lo, t.hi = minB(a.lo, b.lo), maxB(a.hi, b.hi)
	}
	return t
}

// wrap x into [lo, lo+2^w)
func tWrap(x *Term, bits uint, signed bool) *Term {
	var lo, hi *big.Int
	m := pow2(bits)
	if signed {
		lo = new(big.Int).Neg(pow2(bits - 1))
		hi = new(big.Int).Sub(pow2(bits-1), big1)
	} else {
		lo = big0
		hi = new(big.Int).Sub(m, big1)
	}
	if x.lo != nil && x.hi != nil && x.lo.Cmp(lo) >= 0 && x.hi.Cmp(hi) <= 0 {
		return x
	}
	if x.isConst() {
		v := new(big.Int).Sub(x.val, lo)
		v.Mod(v, m)
		v.Add(v, lo)
		return intConstBig(v)
	}
	var t *Term
	if signed {
		t = tAdd(tModE(tSub(x, intConstBig(lo)), intConstBig(m)), intConstBig(lo))
	} else {
		t = tModE(x, intConstBig(m))
	}
	t.lo, t.hi = lo, hi
	return t
}

// ---- comparisons / booleans ----

func cmpFold(op string, a, b *Term) (*Term, bool) {
	if a.isConst() && b.isConst() {
		c := a.val.Cmp(b.val)
		switch op {
		case "<":
			return boolConst(c < 0), true
		case "<=":
			return boolConst(c <= 0), true
		case ">":
			return boolConst(c > 0), true
		case ">=":
			return boolConst(c >= 0), true
		case "=":
			return boolConst(c == 0), true
		}
	}
	// interval based
	if a.hi != nil && b.lo != nil {
		c := a.hi.Cmp(b.lo)
		if c < 0 {
			switch op {
			case "<", "<=":
				return trueT, true
			case ">", ">=", "=":
				return falseT, true
			}
		}
		if c == 0 {
			switch op {
			case "<=":
				return trueT, true
			case ">":
				return falseT, true
			}
		}
	}
	if a.lo != nil && b.hi != nil {
		c := a.lo.Cmp(b.hi)
		if c > 0 {
			switch op {
			case ">", ">=":
				return trueT, true
			case "<", "<=", "=":
				return falseT, true
			}
		}
		if c == 0 {
			switch op {
			case ">=":
				return trueT, true
			case "<":
				return falseT, true
			}
		}
	}
	return nil, false
}

func tCmp(op string, a, b *Term) *Term {
	if r, ok := cmpFold(op, a, b); ok {
		return r
	}
	if a == b {
		switch op {
		case "<=", ">=", "=":
			return trueT
		default:
			return falseT
		}
	}
	return newTerm(op, SBool, a, b)
}
func tLt(a, b *Term) *Term { return tCmp("<", a, b) }
func tLe(a, b *Term) *Term { return tCmp("<=", a, b) }
func tGt(a, b *Term) *Term { return tCmp(">", a, b) }
func tGe(a, b *Term) *Term { return tCmp(">=", a, b) }
func tEq(a, b *Term) *Term {
	if a.sort != b.sort {
		panic(engineError{"internal: tEq on different sorts\n" + string(debug.Stack())})
	}
	if a != b && !a.isConst() && !b.isConst() && a.sort != SFP {
		// structurally identical terms are equal (floats excluded: NaN != NaN)
		a1, a2 := a.hash()
		b1, b2 := b.hash()
		if a1 == b1 && a2 == b2 {
			return trueT
		}
	}
	if a.sort == SBool {
		if a.isConst() {
			if a.bval {
				return b
			}
			return tNot(b)
		}
		if b.isConst() {
			if b.bval {
				return a
			}
			return tNot(a)
		}
		if a == b {
			return trueT
		}
		return newTerm("=", SBool, a, b)
	}
	if a.sort == SFP {
		return newTerm("fp.eq", SBool, a, b)
	}
	return tCmp("=", a, b)
}

func tNot(a *Term) *Term {
	if a.isConst() {
		return boolConst(!a.bval)
	}
	if a.op == "not" {
		return a.args[0]
	}
	return newTerm("not", SBool, a)
}

func tAnd(a, b *Term) *Term {
	if a.isConst() {
		if a.bval {
			return b
		}
		return falseT
	}
	if b.isConst() {
		if b.bval {
			return a
		}
		return falseT
	}
	if a == b {
		return a
	}
	return newTerm("and", SBool, a, b)
}

func tOr(a, b *Term) *Term {
	if a.isConst() {
		if a.bval {
			return trueT
		}
		return b
	}
	if b.isConst() {
		if b.bval {
			return trueT
		}
		return a
	}
	if a == b {
		return a
	}
	return newTerm("or", SBool, a, b)
}

// ---- bit operations through bit-vectors ----

func tBvOp(op string, a, b *Term, bits uint, signed bool) *Term {
	bv := func(x *Term) *Term {
		t := newTerm(fmt.Sprintf("(_ int2bv %d)", bits), SInt, x)
		return t
	}
	r := newTerm(op, SInt, bv(a), bv(b))
	u := newTerm("bv2nat", SInt, r)
	u.lo, u.hi = big0, new(big.Int).Sub(pow2(bits), big1)
	if signed {
		return tWrap(u, bits, true)
	}
	return u
}

// ---- floats ----

func fpConstLit(f float64) *Term {
	t := newTerm("const", SFP)
	t.raw = fpLiteral(f)
	return t
}

func tFP(op string, sort Sort, args ...*Term) *Term { return newTerm(op, sort, args...) }

// ---- printing ----

type printer struct {
	defined map[string]uint64 // name -> second hash (collision guard); shared with the solver context
	out     *strings.Builder  // definitions emitted before the term
	onDef   func(name string)
}

func smtInt(v *big.Int) string {
	if v.Sign() < 0 {
		return "(- " + new(big.Int).Neg(v).String() + ")"
	}
	return v.String()
}

func (p *printer) str(t *Term) string {
	switch t.op {
	case "const":
		switch t.sort {
		case SInt:
			return smtInt(t.val)
		case SBool:
			if t.bval {
				return "true"
			}
			return "false"
		default:
			return t.raw
		}
	case "var":
		return t.raw
	}
	if t.alias != nil {
		return p.str(t.alias)
	}
	var name string
	if t.size > 6 {
		h1, h2 := t.hash()
		name = "t!" + strconv.FormatUint(h1, 36)
		if g, ok := p.defined[name]; ok {
			if g != h2 {
				panic(engineError{"structural hash collision"})
			}
			return name
		}
	}
	var sb strings.Builder
	sb.WriteByte('(')
	sb.WriteString(t.op)
	for _, a := range t.args {
		sb.WriteByte(' ')
		sb.WriteString(p.str(a))
	}
	sb.WriteByte(')')
	s := sb.String()
	if t.size > 6 {
		// name it so that shared sub-DAGs are printed once
		n := name
		srt := t.sort.String()
		if t.op == "fp.to_real" || t.op == "to_real" {
			srt = "Real"
		} else if strings.HasPrefix(t.op, "(_ int2bv") {
			srt = "(_ BitVec " + strings.TrimSuffix(strings.TrimPrefix(t.op, "(_ int2bv "), ")") + ")"
		} else if strings.HasPrefix(t.op, "bv") && t.op != "bv2nat" {
			srt = p.bvSort(t)
		}
		fmt.Fprintf(p.out, "(define-fun %s () %s %s)\n", n, srt, s)
		_, h2 := t.hash()
		p.defined[n] = h2
		if p.onDef != nil {
			p.onDef(n)
		}
		return n
	}
	return s
}

func (p *printer) bvSort(t *Term) string {
	for t != nil {
		if strings.HasPrefix(t.op, "(_ int2bv") {
			return "(_ BitVec " + strings.TrimSuffix(strings.TrimPrefix(t.op, "(_ int2bv "), ")") + ")"
		}
		if len(t.args) == 0 {
			break
		}
		t = t.args[0]
	}
	return "(_ BitVec 64)"
}

// ---- evaluation under a model (used for replay and model-guided branching) ----

type Model map[string]*big.Int // Int vars; Bool vars as 0/1

func (m Model) evalInt(t *Term) (*big.Int, bool) {
	switch t.op {
	case "const":
		return t.val, t.val != nil
	case "var":
		v, ok := m[t.raw]
		return v, ok
	case "+", "-", "*", "div", "mod":
		a, ok1 := m.evalInt(t.args[0])
		b, ok2 := m.evalInt(t.args[1])
		if !ok1 || !ok2 {
			return nil, false
		}
		switch t.op {
		case "+":
			return new(big.Int).Add(a, b), true
		case "-":
			return new(big.Int).Sub(a, b), true
		case "*":
			return new(big.Int).Mul(a, b), true
		case "div":
			if b.Sign() == 0 {
				return nil, false
			}
			q, _ := new(big.Int).DivMod(a, b, new(big.Int))
			return q, true
		case "mod":
			if b.Sign() == 0 {
				return nil, false
			}
			_, r := new(big.Int).DivMod(a, b, new(big.Int))
			return r, true
		}
	case "ite":
		c, ok := m.evalBool(t.args[0])
		if !ok {
			return nil, false
		}
		if c {
			return m.evalInt(t.args[1])
		}
		return m.evalInt(t.args[2])
	}
	return nil, false
}

func (m Model) evalBool(t *Term) (bool, bool) {
	switch t.op {
	case "const":
		return t.bval, true
	case "var":
		v, ok := m[t.raw]
		if !ok {
			return false, false
		}
		return v.Sign() != 0, true
	case "not":
		a, ok := m.evalBool(t.args[0])
		return !a, ok
	case "and":
		a, ok1 := m.evalBool(t.args[0])
		b, ok2 := m.evalBool(t.args[1])
		return a && b, ok1 && ok2
	case "or":
		a, ok1 := m.evalBool(t.args[0])
		b, ok2 := m.evalBool(t.args[1])
		return a || b, ok1 && ok2
	case "ite":
		c, ok := m.evalBool(t.args[0])
		if !ok {
			return false, false
		}
		if c {
			return m.evalBool(t.args[1])
		}
		return m.evalBool(t.args[2])
	case "<", "<=", ">", ">=", "=":
		if t.args[0].sort == SBool {
			a, ok1 := m.evalBool(t.args[0])
			b, ok2 := m.evalBool(t.args[1])
			return a == b, ok1 && ok2
		}
		if t.args[0].sort != SInt {
			return false, false
		}
		a, ok1 := m.evalInt(t.args[0])
		b, ok2 := m.evalInt(t.args[1])
		if !ok1 || !ok2 {
			return false, false
		}
		c := a.Cmp(b)
		switch t.op {
		case "<":
			return c < 0, true
		case "<=":
			return c <= 0, true
		case ">":
			return c > 0, true
		case ">=":
			return c >= 0, true
		default:
			return c == 0, true
		}
	}
	return false, false
}
