package main

// math/bits 128-bit helpers in the Int theory. The real bodies are built
// from 32-bit halves with masks and shifts (symbolic x symbolic products of
// the halves), which no back end decides; their documented contracts are
// exact integer statements.

import (
	"fmt"
	"go/types"
	"math/big"
)

var uk64 = intKind{64, false}

// divQuotientCap bounds the case split of a quotient whose divisor is
// symbolic: q = k is decided by the linear constraint k*y <= a < (k+1)*y.
const divQuotientCap = 24

// splitQuotient returns (q, r) with a = q*y + r, 0 <= r < y for a >= 0, y > 0.
func (w *Worker) splitQuotient(a, y *Term) (*Term, *Term) {
	p := w.path
	if y.isConst() {
		return tDivE(a, y), tModE(a, y)
	}
	if a.isConst() && a.val.Sign() == 0 {
		return intConst(0), intConst(0)
	}
	for k := int64(0); k <= divQuotientCap; k++ {
		if p.Branch(tLt(a, tMul(intConst(k+1), y))) {
			return intConst(k), tSub(a, tMul(intConst(k), y))
		}
	}
	// beyond the cap: q stays symbolic, tied to a and y by the (non-linear) definition
	w.stub("quotient by a symbolic divisor beyond the case split: non-linear term")
	q := p.freshIntRange(big.NewInt(divQuotientCap+1), new(big.Int).Sub(pow2(64), big1))
	r := p.freshIntRange(big0, new(big.Int).Sub(pow2(64), big1))
	p.assertTerm(tEq(a, tAdd(tMul(q, y), r)))
	p.assertTerm(tLt(r, y))
	return q, r
}

func init() {
	reg("math/bits.Mul64", func(fr *frame, a []Value) Value {
		x, y := liftInt(a[0], uk64), liftInt(a[1], uk64)
		prod := tMul(x, y)
		m := intConstBig(pow2(64))
		return Tuple{lowerInt(tDivE(prod, m), uk64), lowerInt(tModE(prod, m), uk64)}
	})
	reg("math/bits.Add64", func(fr *frame, a []Value) Value {
		s := tAdd(tAdd(liftInt(a[0], uk64), liftInt(a[1], uk64)), liftInt(a[2], uk64))
		m := intConstBig(pow2(64))
		return Tuple{lowerInt(tModE(s, m), uk64), lowerInt(tDivE(s, m), uk64)}
	})
	reg("math/bits.Div64", func(fr *frame, a []Value) Value {
		w := fr.w
		p := w.path
		hi, lo, y := liftInt(a[0], uk64), liftInt(a[1], uk64), liftInt(a[2], uk64)
		if p.Branch(tEq(y, intConst(0))) {
			panic(targetPanic{v: Iface{t: types.Typ[types.String], v: mkStr("runtime error: integer divide by zero")}, where: "math/bits.Div64"})
		}
		if p.Branch(tLe(y, hi)) {
			panic(targetPanic{v: Iface{t: types.Typ[types.String], v: mkStr("runtime error: integer overflow")}, where: "math/bits.Div64"})
		}
		num := tAdd(tMul(hi, intConstBig(pow2(64))), lo)
		q, r := w.splitQuotient(num, y)
		return Tuple{lowerInt(q, uk64), lowerInt(r, uk64)}
	})
}

// fmt.Print / Println / Sprint / Sprintln: the real bodies decide spacing
// with reflect.TypeOf, which is not interpretable. Operands are strings and
// concrete integers/bools here (anything else is an engine error, not a guess).
func (w *Worker) fmtOperands(args Value, ln bool) Str {
	sl, _ := args.(Slice)
	var out []Value
	prevString := true
	for i, a := range sl.v {
		iv, ok := a.(Iface)
		if !ok {
			panic(engineError{"fmt.Print model: operand is not an interface value"})
		}
		var piece []Value
		isString := false
		switch v := iv.v.(type) {
		case Str:
			piece = w.cells(v).b
			isString = true
		case int64:
			piece = mkStr(fmt.Sprint(v)).b
		case bool:
			piece = mkStr(fmt.Sprint(v)).b
		case nil:
			piece = mkStr("<nil>").b
		default:
			panic(engineError{fmt.Sprintf("fmt.Print model: operand of type %T", iv.v)})
		}
		if i > 0 && (ln || (!isString && !prevString)) {
			out = append(out, int64(' '))
		}
		out = append(out, piece...)
		prevString = isString
	}
	if ln {
		out = append(out, int64('\n'))
	}
	return Str{b: out}
}

func init() {
	reg("fmt.Print", func(fr *frame, a []Value) Value {
		s := fr.w.fmtOperands(a[0], false)
		fr.w.ghostOut(s)
		return Tuple{int64(len(s.b)), Iface{}}
	})
	reg("fmt.Println", func(fr *frame, a []Value) Value {
		s := fr.w.fmtOperands(a[0], true)
		fr.w.ghostOut(s)
		return Tuple{int64(len(s.b)), Iface{}}
	})
	reg("fmt.Sprint", func(fr *frame, a []Value) Value { return fr.w.fmtOperands(a[0], false) })
	reg("fmt.Sprintln", func(fr *frame, a []Value) Value { return fr.w.fmtOperands(a[0], true) })
}
