package main

// Run-time values of the symbolic interpreter.
//
//   integers   int64 (concrete; unsigned 64-bit kept as the bit pattern) or *Term (sort Int)
//   bool       bool or *Term (sort Bool)
//   float64/32 float64 or *Term (sort FP)
//   string     Str   (one cell per byte; may alias a []byte backing array)
//   slice      Slice (Go slice of cells: aliasing and capacity come for free)
//   pointer    *Value; struct Struct; array Array; interface Iface
//   map        *Map; chan *Chan; func *ssa.Function / *Closure / *ssa.Builtin / nil
//   tuple      Tuple

import (
	"fmt"
	"go/types"
	"math"
	"math/big"
	"strconv"
	"strings"

	"golang.org/x/tools/go/ssa"
)

type Value interface{}

type Str struct {
	b   []Value
	tag *StrTag
}

// StrTag marks an opaque decimal rendering of a number (DESIGN 1.4).
type StrTag struct {
	intOf   *Term // Int term (value of the rendered integer), or nil
	intConc int64
	isConc  bool
	fpOf    Value // float64 or *Term for FloatStr
	isFloat bool
	fmtC    byte
	prec    int
	precT   *Term   // symbolic precision (prec == -2)
	mat     []Value // materialised cells (per path)
}

type Slice struct {
	v      []Value
	nonNil bool
}

type Struct []Value
type Array []Value
type Tuple []Value

type Iface struct {
	t types.Type
	v Value
}

type Closure struct {
	fn  *ssa.Function
	env []Value
}

// BoundMethod is created by intrinsics that need a Go-implemented func value.
type GoFunc struct {
	name string
	fn   func(fr *frame, args []Value) Value
}

type mapEntry struct {
	k, v    Value
	deleted bool
}

type Map struct {
	entries []*mapEntry
	index   map[string]int // concrete-key fast path: canonical key -> entry index
	n       int
}

type Chan struct {
	buf    []Value
	cap    int
	closed bool
	id     int

	vcs         []vclock // tier B race monitor: clock attached to each buffered value
	recvVCs     []vclock // tier B race monitor: clock of each receiver, in order (capacity edge of buffered channels)
	sent        int      // tier B race monitor: number of sends so far
	taken       int      // tier B: number of values received so far
	recvWaiting int      // tier B: goroutines waiting to receive (rendezvous of unbuffered channels)
}

type intKind struct {
	bits   uint
	signed bool
}

func basicIntKind(b *types.Basic) (intKind, bool) {
	switch b.Kind() {
	case types.Int, types.Int64, types.UntypedInt:
		return intKind{64, true}, true
	case types.Int8:
		return intKind{8, true}, true
	case types.Int16:
		return intKind{16, true}, true
	case types.Int32, types.UntypedRune:
		return intKind{32, true}, true
	case types.Uint, types.Uint64, types.Uintptr:
		return intKind{64, false}, true
	case types.Uint8:
		return intKind{8, false}, true
	case types.Uint16:
		return intKind{16, false}, true
	case types.Uint32:
		return intKind{32, false}, true
	}
	return intKind{}, false
}

func typeIntKind(t types.Type) (intKind, bool) {
	if b, ok := t.Underlying().(*types.Basic); ok {
		return basicIntKind(b)
	}
	return intKind{}, false
}

func isFloatType(t types.Type) bool {
	if b, ok := t.Underlying().(*types.Basic); ok {
		return b.Info()&types.IsFloat != 0
	}
	return false
}

func wrapConc(v int64, k intKind) int64 {
	if k.bits == 64 {
		return v
	}
	if k.signed {
		sh := 64 - k.bits
		return (v << sh) >> sh
	}
	return v & (int64(1)<<k.bits - 1)
}

// liftInt turns an integer value into a Term.
func liftInt(v Value, k intKind) *Term {
	switch v := v.(type) {
	case *Term:
		return v
	case int64:
		if !k.signed && k.bits == 64 && v < 0 {
			return intConstBig(new(big.Int).SetUint64(uint64(v)))
		}
		return intConst(v)
	}
	panic(engineError{fmt.Sprintf("liftInt: not an integer: %T", v)})
}

// lowerInt converts a constant Term back to a concrete value.
func lowerInt(t *Term, k intKind) Value {
	if t.isConst() {
		if !k.signed && k.bits == 64 {
			return int64(t.val.Uint64())
		}
		return t.val.Int64()
	}
	return t
}

func liftBool(v Value) *Term {
	switch v := v.(type) {
	case *Term:
		return v
	case bool:
		return boolConst(v)
	}
	panic(engineError{fmt.Sprintf("liftBool: not a bool: %T", v)})
}

func lowerBool(t *Term) Value {
	if t.isConst() {
		return t.bval
	}
	return t
}

func liftFloat(v Value) *Term {
	switch v := v.(type) {
	case *Term:
		return v
	case float64:
		return fpConstLit(v)
	}
	panic(engineError{fmt.Sprintf("liftFloat: not a float: %T", v)})
}

func mathFloat64bits(f float64) uint64 { return math.Float64bits(f) }

// ---- strings ----

var byteVals [256]Value

func init() {
	for i := range byteVals {
		byteVals[i] = int64(i)
	}
}

func mkStr(s string) Str {
	b := make([]Value, len(s))
	for i := 0; i < len(s); i++ {
		b[i] = byteVals[s[i]]
	}
	return Str{b: b}
}

func (s Str) concrete() (string, bool) {
	if s.tag != nil && s.b == nil {
		return "", false
	}
	buf := make([]byte, len(s.b))
	for i, c := range s.b {
		v, ok := c.(int64)
		if !ok {
			return "", false
		}
		buf[i] = byte(v)
	}
	return string(buf), true
}

func (s Str) String() string {
	if s.tag != nil && s.b == nil {
		if s.tag.isFloat {
			return fmt.Sprintf("FloatStr(%v)", s.tag.fpOf)
		}
		if s.tag.isConc {
			return fmt.Sprintf("IntStr(%d)", s.tag.intConc)
		}
		return "IntStr(sym)"
	}
	var sb strings.Builder
	for _, c := range s.b {
		if v, ok := c.(int64); ok {
			if v >= 32 && v < 127 {
				sb.WriteByte(byte(v))
			} else {
				fmt.Fprintf(&sb, "\\x%02x", v)
			}
		} else {
			sb.WriteString("?")
		}
	}
	return sb.String()
}

// ---- zero values, copies ----

func zero(t types.Type) Value {
	switch t := t.(type) {
	case *types.Basic:
		if t.Kind() == types.UntypedNil {
			panic(engineError{"untyped nil has no zero value"})
		}
		if t.Info()&types.IsInteger != 0 {
			return int64(0)
		}
		if t.Info()&types.IsBoolean != 0 {
			return false
		}
		if t.Info()&types.IsFloat != 0 {
			return float64(0)
		}
		if t.Info()&types.IsString != 0 {
			return Str{}
		}
		if t.Kind() == types.UnsafePointer {
			return (*Value)(nil)
		}
		if t.Info()&types.IsComplex != 0 {
			return complex128(0)
		}
	case *types.Pointer:
		return (*Value)(nil)
	case *types.Array:
		a := make(Array, t.Len())
		for i := range a {
			a[i] = zero(t.Elem())
		}
		return a
	case *types.Named:
		return zero(t.Underlying())
	case *types.Alias:
		return zero(types.Unalias(t))
	case *types.Interface:
		return Iface{}
	case *types.Slice:
		return Slice{}
	case *types.Struct:
		s := make(Struct, t.NumFields())
		for i := range s {
			s[i] = zero(t.Field(i).Type())
		}
		return s
	case *types.Tuple:
		if t.Len() == 1 {
			return zero(t.At(0).Type())
		}
		s := make(Tuple, t.Len())
		for i := range s {
			s[i] = zero(t.At(i).Type())
		}
		return s
	case *types.Chan:
		return (*Chan)(nil)
	case *types.Map:
		return (*Map)(nil)
	case *types.Signature:
		return nil
	}
	panic(engineError{fmt.Sprintf("zero: unexpected type %T %v", t, t)})
}

func copyVal(v Value) Value {
	switch v := v.(type) {
	case Struct:
		n := make(Struct, len(v))
		for i, x := range v {
			n[i] = copyVal(x)
		}
		return n
	case Array:
		n := make(Array, len(v))
		for i, x := range v {
			n[i] = copyVal(x)
		}
		return n
	}
	return v
}

// ---- equality ----

// eqVal returns a Bool term for a == b (Go comparison semantics).
func (w *Worker) eqVal(a, b Value) *Term {
	switch a := a.(type) {
	case int64:
		switch b := b.(type) {
		case int64:
			return boolConst(a == b)
		case *Term:
			return tEq(intConst(a), b)
		}
	case bool:
		return tEq(boolConst(a), liftBool(b))
	case float64:
		switch b := b.(type) {
		case float64:
			return boolConst(a == b)
		case *Term:
			return tEq(fpConstLit(a), b)
		}
	case *Term:
		switch a.sort {
		case SInt:
			if bi, ok := b.(int64); ok {
				return tEq(a, intConst(bi))
			}
			return tEq(a, b.(*Term))
		case SBool:
			return tEq(a, liftBool(b))
		case SFP:
			return tEq(a, liftFloat(b))
		}
	case Str:
		return w.strEq(a, b.(Str))
	case *Value:
		return boolConst(a == b.(*Value))
	case *Map:
		return boolConst(a == b.(*Map))
	case *Chan:
		return boolConst(a == b.(*Chan))
	case Iface:
		bi := b.(Iface)
		if a.t == nil || bi.t == nil {
			return boolConst(a.t == nil && bi.t == nil)
		}
		if !types.Identical(a.t, bi.t) {
			return falseT
		}
		return w.eqVal(a.v, bi.v)
	case Struct:
		bs := b.(Struct)
		r := trueT
		for i := range a {
			r = tAnd(r, w.eqVal(a[i], bs[i]))
		}
		return r
	case Array:
		bs := b.(Array)
		r := trueT
		for i := range a {
			r = tAnd(r, w.eqVal(a[i], bs[i]))
		}
		return r
	case nil:
		return boolConst(b == nil)
	case *ssa.Function:
		if b == nil {
			return boolConst(a == nil)
		}
	case *Closure:
		if b == nil {
			return boolConst(a == nil)
		}
	case Slice:
		// only comparable to nil
		bs := b.(Slice)
		if !bs.nonNil && bs.v == nil {
			return boolConst(!a.nonNil && a.v == nil)
		}
		if !a.nonNil && a.v == nil {
			return boolConst(!bs.nonNil && bs.v == nil)
		}
	case *SymPtr:
		if bp, ok := b.(*Value); ok && bp == nil {
			return falseT
		}
	}
	if b == nil {
		return falseT
	}
	panic(engineError{fmt.Sprintf("eqVal: cannot compare %T and %T", a, b)})
}

// canonInt reports whether s is the canonical decimal rendering of an int64/uint64.
func canonInt(s string) (*big.Int, bool) {
	v, ok := new(big.Int).SetString(s, 10)
	if !ok || v.String() != s {
		return nil, false
	}
	return v, true
}

func unmaterialised(s Str) bool { return s.tag != nil && s.b == nil && s.tag.mat == nil }

// tagEq compares opaque number renderings without materialising them: the
// canonical decimal rendering of integers is injective, and so is the
// shortest rendering of floats up to NaN payloads (SMT = on floats).
func (w *Worker) tagEq(a, b Str) (*Term, bool) {
	ua, ub := unmaterialised(a), unmaterialised(b)
	if !ua && !ub {
		return nil, false
	}
	if ua && ub {
		if a.tag.isFloat != b.tag.isFloat {
			return nil, false
		}
		if a.tag.isFloat {
			if a.tag.fmtC != b.tag.fmtC || a.tag.prec != b.tag.prec {
				return nil, false
			}
			if a.tag.precT != nil || b.tag.precT != nil {
				if a.tag.precT == nil || b.tag.precT == nil {
					return nil, false
				}
				x1, x2 := a.tag.precT.hash()
				y1, y2 := b.tag.precT.hash()
				if x1 != y1 || x2 != y2 {
					return nil, false
				}
			}
			return newTerm("=", SBool, liftFloat(a.tag.fpOf), liftFloat(b.tag.fpOf)), true
		}
		return tEq(a.tag.intOf, b.tag.intOf), true
	}
	if ub {
		a, b = b, a
	}
	// a opaque, b ordinary
	cs, ok := b.concrete()
	if !ok {
		return nil, false
	}
	if a.tag.isFloat {
		if a.tag.fmtC != 'f' && a.tag.fmtC != 0 || a.tag.prec != -1 {
			return nil, false
		}
		f, err := strconv.ParseFloat(cs, 64)
		if err != nil || strconv.FormatFloat(f, 'f', -1, 64) != cs {
			return falseT, true
		}
		return newTerm("=", SBool, liftFloat(a.tag.fpOf), fpConstLit(f)), true
	}
	v, ok := canonInt(cs)
	if !ok {
		return falseT, true
	}
	return tEq(a.tag.intOf, intConstBig(v)), true
}

func (w *Worker) strEq(a, b Str) *Term {
	if t, ok := w.tagEq(a, b); ok {
		return t
	}
	a = w.cells(a)
	b = w.cells(b)
	if len(a.b) != len(b.b) {
		return falseT
	}
	r := trueT
	for i := range a.b {
		r = tAnd(r, w.eqVal(a.b[i], b.b[i]))
		if r == falseT {
			return r
		}
	}
	return r
}

// strLess returns a Bool term for a < b (bytewise lexicographic).
func (w *Worker) strLess(a, b Str) *Term {
	a = w.cells(a)
	b = w.cells(b)
	n := len(a.b)
	if len(b.b) < n {
		n = len(b.b)
	}
	// build from the end
	r := boolConst(len(a.b) < len(b.b))
	bk := intKind{8, false}
	for i := n - 1; i >= 0; i-- {
		x, y := liftInt(a.b[i], bk), liftInt(b.b[i], bk)
		r = tIte(tLt(x, y), trueT, tIte(tGt(x, y), falseT, r))
	}
	return r
}

// canonical key for the concrete-key fast path of maps
func canonKey(v Value) (string, bool) {
	switch v := v.(type) {
	case int64:
		return fmt.Sprintf("i%d", v), true
	case bool:
		if v {
			return "bT", true
		}
		return "bF", true
	case float64:
		return fmt.Sprintf("f%x", math.Float64bits(v)), true
	case Str:
		s, ok := v.concrete()
		return "s" + s, ok
	case *Value:
		return fmt.Sprintf("p%p", v), true
	case Iface:
		if v.t == nil {
			return "nil", true
		}
		k, ok := canonKey(v.v)
		return "I" + v.t.String() + "|" + k, ok
	case Struct:
		var sb strings.Builder
		sb.WriteString("S{")
		for _, f := range v {
			k, ok := canonKey(f)
			if !ok {
				return "", false
			}
			fmt.Fprintf(&sb, "%d:%s,", len(k), k)
		}
		return sb.String(), true
	case Array:
		var sb strings.Builder
		sb.WriteString("A{")
		for _, f := range v {
			k, ok := canonKey(f)
			if !ok {
				return "", false
			}
			fmt.Fprintf(&sb, "%d:%s,", len(k), k)
		}
		return sb.String(), true
	}
	return "", false
}

func valString(v Value) string {
	switch v := v.(type) {
	case Str:
		return fmt.Sprintf("%q", v.String())
	case *Term:
		if v.isConst() {
			p := &printer{defined: map[string]uint64{}, out: &strings.Builder{}}
			return p.str(v)
		}
		return "<sym>"
	case Iface:
		if v.t == nil {
			return "nil"
		}
		return fmt.Sprintf("(%s)%s", v.t, valString(v.v))
	case Struct:
		parts := []string{}
		for _, f := range v {
			parts = append(parts, valString(f))
		}
		return "{" + strings.Join(parts, " ") + "}"
	case Slice:
		parts := []string{}
		for _, f := range v.v {
			parts = append(parts, valString(f))
		}
		return "[" + strings.Join(parts, " ") + "]"
	case *Value:
		if v == nil {
			return "nil"
		}
		return "&" + valString(*v)
	}
	return fmt.Sprint(v)
}
