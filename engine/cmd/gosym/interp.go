package main

// The SSA interpreter proper: frames, instructions, calls, panics.

import (
	"runtime"
	"os"
	"fmt"
	"go/constant"
	"go/token"
	"go/types"
	"math/big"
	"strings"
	"sync"
	"time"

	"golang.org/x/tools/go/ssa"
)

type SymPtr struct {
	cells []Value
	idx   *Term
}

type targetPanic struct {
	v     Value
	where string
}

type undoEntry struct {
	p   *Value
	old Value
}

type fnInfo struct {
	index     map[ssa.Value]int
	n         int
	intrinsic intrinsicFn
	redirect  *ssa.Function
	checked   bool
	name      string
}

// redirects: callee name -> harness function with the same signature
// (environment stubs written in Go inside the harness; every hit is counted
// in the evidence as a stub).
var redirects = map[string]*ssa.Function{}

type Worker struct {
	id       int
	prog     *ssa.Program
	ex       *Explorer
	solver   *Solver
	cross    *Solver
	crossAll bool
	crossCtr int
	path     *Path
	ctx      solverCtx
	lastVals map[string]ModelVal

	globals          map[*ssa.Global]*Value
	constCache       map[*ssa.Const]Value
	fnInfos          map[*ssa.Function]*fnInfo
	undo             []undoEntry
	mapUndo          []func()
	logging          bool
	maxSteps         int64
	tick             int
	absFloatText     bool
	loopBound        int
	absFloatArith    bool
	splitDiv         bool
	boundedChans     bool
	usedSched        bool
	sched            *schedState
	curFrame         *frame
	curInstr         ssa.Instruction
	whereLog         []string
	opaqueParseFloat bool
	depth            int

	branches        int
	knownBranches   int
	unknownBranches int
	funcs           map[string]bool
	stubs           map[string]int
	zz              *ssa.Package // the nondet runtime package
	initSkipped     map[string]bool
	uninit          map[*ssa.Global]bool
	initDone        bool
	chanCtr         int
	onceDone        map[*Value]bool
	out             []Value
	mapOrderFork    bool
	rtErrType       types.Type
}

type deferred struct {
	fn    Value
	args  []Value
	instr *ssa.Defer
	tail  *deferred
}

type frame struct {
	w         *Worker
	caller    *frame
	fn        *ssa.Function
	info      *fnInfo
	block     *ssa.BasicBlock
	prevBlock *ssa.BasicBlock
	env       []Value
	locals    []Value
	defers    *deferred
	result    Value
	panicking bool
	panicVal  interface{}
	phitemps  []Value
	callArgs  []Value
}

var fnInfoMu sync.Mutex
var sharedFnIndex = map[*ssa.Function]map[ssa.Value]int{}

func (w *Worker) info(fn *ssa.Function) *fnInfo {
	if fi, ok := w.fnInfos[fn]; ok {
		return fi
	}
	fnInfoMu.Lock()
	idx, ok := sharedFnIndex[fn]
	if !ok {
		idx = map[ssa.Value]int{}
		n := 0
		for _, p := range fn.Params {
			idx[p] = n
			n++
		}
		for _, p := range fn.FreeVars {
			idx[p] = n
			n++
		}
		for _, b := range fn.Blocks {
			for _, in := range b.Instrs {
				if v, ok := in.(ssa.Value); ok {
					idx[v] = n
					n++
				}
			}
		}
		sharedFnIndex[fn] = idx
	}
	fnInfoMu.Unlock()
	fi := &fnInfo{index: idx, n: len(idx), name: fn.String()}
	w.fnInfos[fn] = fi
	return fi
}

func (w *Worker) store(p *Value, v Value) {
	if w.logging {
		w.undo = append(w.undo, undoEntry{p, *p})
	}
	*p = v
}

func (w *Worker) rollback() {
	for i := len(w.undo) - 1; i >= 0; i-- {
		*w.undo[i].p = w.undo[i].old
	}
	w.undo = w.undo[:0]
	for i := len(w.mapUndo) - 1; i >= 0; i-- {
		w.mapUndo[i]()
	}
	w.mapUndo = w.mapUndo[:0]
}

func (w *Worker) global(g *ssa.Global) *Value {
	if p, ok := w.globals[g]; ok {
		return p
	}
	p := new(Value)
	*p = zero(g.Type().(*types.Pointer).Elem())
	w.globals[g] = p
	return p
}

// needsSkippedInit: g belongs to a package whose initialiser is not run and
// that initialiser would have written g. Reading such a global would silently
// see the zero value, so it ends the path as an engine error (inconclusive).
func (w *Worker) needsSkippedInit(g *ssa.Global) bool {
	if v, ok := w.uninit[g]; ok {
		return v
	}
	if w.uninit == nil {
		w.uninit = map[*ssa.Global]bool{}
	}
	r := false
	if g.Pkg != nil && !w.initAllowed(g.Pkg.Pkg.Path()) && !initProvided[g.String()] {
		if _, set := w.globals[g]; !set {
			if ini := g.Pkg.Func("init"); ini != nil {
				r = refersTo(ini, g, map[*ssa.Function]bool{})
			}
		}
	}
	w.uninit[g] = r
	return r
}

// globals of non-initialised packages that are fine as zero values or are provided by the engine
var initProvided = map[string]bool{"os.Interrupt": true} // os.Interrupt: only handed to the stubbed signal.Notify

func refersTo(fn *ssa.Function, g *ssa.Global, seen map[*ssa.Function]bool) bool {
	if seen[fn] {
		return false
	}
	seen[fn] = true
	for _, b := range fn.Blocks {
		for _, in := range b.Instrs {
			for _, op := range in.Operands(nil) {
				if *op == ssa.Value(g) {
					return true
				}
				if f, ok := (*op).(*ssa.Function); ok && f.Pkg == fn.Pkg && strings.HasPrefix(f.Name(), "init#") {
					if refersTo(f, g, seen) {
						return true
					}
				}
			}
		}
	}
	return false
}

func (w *Worker) constValue(c *ssa.Const) Value {
	if v, ok := w.constCache[c]; ok {
		return v
	}
	v := w.constValue0(c)
	w.constCache[c] = v
	return v
}

func (w *Worker) constValue0(c *ssa.Const) Value {
	if c.Value == nil {
		return zero(c.Type())
	}
	t := c.Type().Underlying()
	if b, ok := t.(*types.Basic); ok {
		switch {
		case b.Info()&types.IsBoolean != 0:
			return constant.BoolVal(c.Value)
		case b.Info()&types.IsInteger != 0:
			k, _ := basicIntKind(b)
			if !k.signed {
				u, _ := constant.Uint64Val(constant.ToInt(c.Value))
				return wrapConc(int64(u), k)
			}
			i, _ := constant.Int64Val(constant.ToInt(c.Value))
			return wrapConc(i, k)
		case b.Info()&types.IsFloat != 0:
			f, _ := constant.Float64Val(c.Value)
			if b.Kind() == types.Float32 {
				return float64(float32(f))
			}
			return f
		case b.Info()&types.IsString != 0:
			if c.Value.Kind() == constant.String {
				return mkStr(constant.StringVal(c.Value))
			}
			return mkStr(c.Value.String())
		case b.Info()&types.IsComplex != 0:
			re, _ := constant.Float64Val(constant.Real(c.Value))
			im, _ := constant.Float64Val(constant.Imag(c.Value))
			return complex(re, im)
		}
	}
	// type parameter etc.
	switch c.Value.Kind() {
	case constant.Int:
		i, _ := constant.Int64Val(c.Value)
		return i
	case constant.String:
		return mkStr(constant.StringVal(c.Value))
	case constant.Bool:
		return constant.BoolVal(c.Value)
	case constant.Float:
		f, _ := constant.Float64Val(c.Value)
		return f
	}
	panic(engineError{fmt.Sprintf("constValue: %v", c)})
}

func (fr *frame) get(key ssa.Value) Value {
	switch key := key.(type) {
	case nil:
		return nil
	case *ssa.Function:
		return key
	case *ssa.Builtin:
		return key
	case *ssa.Const:
		return fr.w.constValue(key)
	case *ssa.Global:
		if fr.w.initDone && fr.w.needsSkippedInit(key) {
			panic(engineError{"library global " + key.String() + " is set by a package initialiser that the engine does not run"})
		}
		return fr.w.global(key)
	}
	if i, ok := fr.info.index[key]; ok {
		return fr.env[i]
	}
	panic(engineError{fmt.Sprintf("get: no value for %T %v", key, key.Name())})
}

func (fr *frame) set(key ssa.Value, v Value) {
	fr.env[fr.info.index[key]] = v
}

func (fr *frame) where(pos token.Pos) string {
	p := fr.fn.Prog.Fset.Position(pos)
	if !p.IsValid() {
		return fr.fn.String()
	}
	return fmt.Sprintf("%s:%d (%s)", p.Filename, p.Line, fr.fn.String())
}

// goPanic raises a Go run-time panic in the interpreted program.
func (fr *frame) goPanic(msg string, pos token.Pos) {
	panic(targetPanic{v: Iface{t: fr.w.rtErrType, v: mkStr("runtime error: " + msg)}, where: fr.where(pos)})
}

func (w *Worker) call(caller *frame, pos token.Pos, fn Value, args []Value) Value {
	switch fn := fn.(type) {
	case *ssa.Function:
		if fn == nil {
			caller.goPanic("invalid memory address or nil pointer dereference (nil func)", pos)
		}
		return w.callSSA(caller, pos, fn, args, nil)
	case *Closure:
		return w.callSSA(caller, pos, fn.fn, args, fn.env)
	case *ssa.Builtin:
		return w.callBuiltin(caller, pos, fn, args)
	case *GoFunc:
		return fn.fn(caller, args)
	case nil:
		caller.goPanic("invalid memory address or nil pointer dereference (nil func)", pos)
	}
	panic(engineError{fmt.Sprintf("cannot call %T", fn)})
}

func (w *Worker) callSSA(caller *frame, pos token.Pos, fn *ssa.Function, args []Value, env []Value) Value {
	fi := w.info(fn)
	if !fi.checked {
		fi.checked = true
		fi.intrinsic = lookupIntrinsic(fn)
		if r, ok := redirects[fi.name]; ok && r != fn {
			fi.redirect = r
		}
		if w.funcs != nil && fn.Pkg != nil && strings.HasPrefix(fn.Pkg.Pkg.Path(), "rare") {
			w.funcs[fi.name] = true
		}
	}
	if fi.redirect != nil {
		w.stub("redirected to harness stub: " + fi.name + " -> " + fi.redirect.Name())
		return w.callSSA(caller, pos, fi.redirect, args, nil)
	}
	fr := &frame{w: w, caller: caller, fn: fn, info: fi, callArgs: args}
	if fi.intrinsic != nil {
		if r, handled := fi.intrinsic(fr, args); handled {
			return r
		}
	}
	if fn.Blocks == nil {
		panic(engineError{"no body and no model for function: " + fi.name})
	}
	if fn.Synthetic == "package initializer" {
		if !w.initAllowed(fn.Pkg.Pkg.Path()) {
			return nil
		}
	}
	w.depth++
	if w.depth > 400 {
		panic(budgetEnd{"call depth"})
	}
	defer func() { w.depth-- }()
	fr.env = make([]Value, fi.n)
	fr.block = fn.Blocks[0]
	fr.locals = make([]Value, len(fn.Locals))
	for i, l := range fn.Locals {
		fr.locals[i] = zero(l.Type().Underlying().(*types.Pointer).Elem())
		fr.env[fi.index[l]] = &fr.locals[i]
	}
	for i, p := range fn.Params {
		fr.env[fi.index[p]] = args[i]
	}
	for i, fv := range fn.FreeVars {
		fr.env[fi.index[fv]] = env[i]
	}
	for fr.block != nil {
		fr.run()
	}
	return fr.result
}

func (fr *frame) runDefer(d *deferred) {
	var ok bool
	defer func() {
		if !ok {
			// deferred call started a new panic
			r := recover()
			if _, isTarget := r.(targetPanic); !isTarget {
				panic(r)
			}
			fr.panicking = true
			fr.panicVal = r
		}
	}()
	fr.w.call(fr, d.instr.Pos(), d.fn, d.args)
	ok = true
}

func (fr *frame) runDefers() {
	for d := fr.defers; d != nil; d = d.tail {
		fr.runDefer(d)
	}
	fr.defers = nil
	if fr.panicking {
		panic(fr.panicVal)
	}
}

func (fr *frame) run() {
	defer func() {
		if fr.block == nil {
			return
		}
		r := recover()
		if _, isTarget := r.(targetPanic); !isTarget {
			if re, ok := r.(runtime.Error); ok && os.Getenv("GOSYM_DEBUG") != "" {
				fmt.Fprintf(os.Stderr, "  engine crash in %s: %v\n", fr.fn.String(), re)
			}
			panic(r) // engine-level control flow: do not run target defers
		}
		fr.panicking = true
		fr.panicVal = r
		fr.runDefers()
		fr.block = fr.fn.Recover
		if fr.block == nil {
			// recovered without named results: return zero values
			fr.result = zeroResult(fr.fn)
		}
	}()
	w := fr.w
	for {
		blk := fr.block
		instrs := blk.Instrs
		// phis
		np := 0
		for np < len(instrs) {
			if _, ok := instrs[np].(*ssa.Phi); !ok {
				break
			}
			np++
		}
		if np > 0 {
			pred := -1
			for i, p := range blk.Preds {
				if p == fr.prevBlock {
					pred = i
					break
				}
			}
			fr.phitemps = fr.phitemps[:0]
			for _, in := range instrs[:np] {
				fr.phitemps = append(fr.phitemps, fr.get(in.(*ssa.Phi).Edges[pred]))
			}
			for i, in := range instrs[:np] {
				fr.set(in.(*ssa.Phi), fr.phitemps[i])
			}
		}
		w.path.steps += int64(len(instrs))
		if w.path.steps > w.maxSteps {
			panic(budgetEnd{"step budget"})
		}
		w.tick++
		if w.tick&0xfff == 0 && w.ex != nil && time.Now().After(w.ex.deadline) {
			panic(budgetEnd{"wall-clock deadline inside a path"})
		}
		jumped := false
		for _, in := range instrs[np:] {
			if trailLog != nil {
				w.curFrame, w.curInstr = fr, in
			}
			switch fr.visit(in) {
			case kReturn:
				return
			case kJump:
				jumped = true
			}
			if jumped {
				break
			}
		}
	}
}

func zeroResult(fn *ssa.Function) Value {
	res := fn.Signature.Results()
	switch res.Len() {
	case 0:
		return nil
	case 1:
		return zero(res.At(0).Type())
	}
	return zero(res)
}

type continuation int

const (
	kNext continuation = iota
	kReturn
	kJump
)

func (fr *frame) prepareCall(call *ssa.CallCommon) (Value, []Value) {
	v := fr.get(call.Value)
	var fn Value
	var args []Value
	if call.Method == nil {
		fn = v
	} else {
		recv := v.(Iface)
		if recv.t == nil {
			fr.goPanic("invalid memory address or nil pointer dereference (method on nil interface)", call.Pos())
		}
		f := fr.w.prog.LookupMethod(recv.t, call.Method.Pkg(), call.Method.Name())
		if f == nil {
			panic(engineError{fmt.Sprintf("method %s not found on %v", call.Method.Name(), recv.t)})
		}
		fn = f
		args = append(args, recv.v)
	}
	for _, a := range call.Args {
		args = append(args, fr.get(a))
	}
	return fn, args
}

func derefType(t types.Type) types.Type {
	return t.Underlying().(*types.Pointer).Elem()
}

func (fr *frame) visit(instr ssa.Instruction) continuation {
	w := fr.w
	switch instr := instr.(type) {
	case *ssa.DebugRef:
	case *ssa.UnOp:
		fr.set(instr, fr.unop(instr, fr.get(instr.X)))
	case *ssa.BinOp:
		fr.set(instr, fr.binop(instr.Op, instr.X.Type(), fr.get(instr.X), fr.get(instr.Y), instr.Pos()))
	case *ssa.Call:
		fn, args := fr.prepareCall(&instr.Call)
		fr.set(instr, w.call(fr, instr.Pos(), fn, args))
	case *ssa.ChangeInterface:
		fr.set(instr, fr.get(instr.X))
	case *ssa.ChangeType:
		fr.set(instr, fr.get(instr.X))
	case *ssa.Convert:
		fr.set(instr, fr.conv(instr.Type(), instr.X.Type(), fr.get(instr.X), instr.Pos()))
	case *ssa.MakeInterface:
		fr.set(instr, Iface{t: instr.X.Type(), v: fr.get(instr.X)})
	case *ssa.Extract:
		fr.set(instr, fr.get(instr.Tuple).(Tuple)[instr.Index])
	case *ssa.Slice:
		fr.set(instr, fr.sliceOp(instr))
	case *ssa.Return:
		switch len(instr.Results) {
		case 0:
		case 1:
			fr.result = fr.get(instr.Results[0])
		default:
			res := make(Tuple, len(instr.Results))
			for i, r := range instr.Results {
				res[i] = fr.get(r)
			}
			fr.result = res
		}
		fr.block = nil
		return kReturn
	case *ssa.RunDefers:
		fr.runDefers()
	case *ssa.Panic:
		panic(targetPanic{v: fr.get(instr.X), where: fr.where(instr.Pos())})
	case *ssa.Store:
		if w.sched != nil && w.sched.race != nil {
			if vp, ok := fr.get(instr.Addr).(*Value); ok {
				w.raceAccess(fr, vp, true, instr.Pos())
			}
		}
		fr.storeTo(derefType(instr.Addr.Type()), fr.get(instr.Addr), fr.get(instr.Val), instr.Pos())
	case *ssa.If:
		succ := 1
		c := fr.get(instr.Cond)
		var b bool
		switch c := c.(type) {
		case bool:
			b = c
			if w.loopBound > 0 {
				// a comparison of symbolic operands that interval reasoning folded to a constant still
				// makes the trip count depend on the inputs: it counts towards the unwinding bound
				symDerived := false
				if bo, ok := instr.Cond.(*ssa.BinOp); ok {
					_, sx := fr.get(bo.X).(*Term)
					_, sy := fr.get(bo.Y).(*Term)
					symDerived = sx || sy
				}
				if symDerived {
					if w.path.ifCount == nil {
						w.path.ifCount = map[*ssa.If]int{}
					}
					w.path.ifCount[instr]++
					if w.path.ifCount[instr] > w.loopBound {
						w.stub(fmt.Sprintf("unwinding bound: a symbolic branch was decided more than %d times on one path; path cut (outside the claim)", w.loopBound))
						panic(pathEnd{"unwinding bound"})
					}
				} else {
					if w.path.ifConc == nil {
						w.path.ifConc = map[*ssa.If]int{}
					}
					w.path.ifConc[instr]++
					if w.path.ifConc[instr] > 20000 {
						w.stub("a branch instruction was executed more than 20000 times on one path; path cut (running time and memory use are outside the claim)")
						panic(pathEnd{"long concrete loop"})
					}
				}
			}
		case *Term:
			b = w.path.Branch(c)
			if w.loopBound > 0 && !c.isConst() {
				if w.path.ifCount == nil {
					w.path.ifCount = map[*ssa.If]int{}
				}
				w.path.ifCount[instr]++
				if w.path.ifCount[instr] > w.loopBound {
					w.stub(fmt.Sprintf("unwinding bound: a symbolic branch was decided more than %d times on one path; path cut (outside the claim)", w.loopBound))
					panic(pathEnd{"unwinding bound"})
				}
			}
		}
		if b {
			succ = 0
		}
		fr.prevBlock, fr.block = fr.block, fr.block.Succs[succ]
		return kJump
	case *ssa.Jump:
		fr.prevBlock, fr.block = fr.block, fr.block.Succs[0]
		return kJump
	case *ssa.Defer:
		fn, args := fr.prepareCall(&instr.Call)
		fr.defers = &deferred{fn: fn, args: args, instr: instr, tail: fr.defers}
	case *ssa.Go:
		fn, args := fr.prepareCall(&instr.Call)
		w.goStmt(fr, instr, fn, args)
	case *ssa.MakeChan:
		w.chanCtr++
		fr.set(instr, &Chan{cap: int(w.concInt(fr.get(instr.Size))), id: w.chanCtr})
	case *ssa.Alloc:
		var addr *Value
		if instr.Heap {
			addr = new(Value)
			fr.set(instr, addr)
		} else {
			addr = fr.get(instr).(*Value)
		}
		*addr = zero(derefType(instr.Type()))
	case *ssa.MakeSlice:
		n := int(w.concInt(fr.get(instr.Len)))
		c := int(w.concInt(fr.get(instr.Cap)))
		if n < 0 || c < n || c > 1<<24 {
			fr.goPanic("makeslice: len out of range", instr.Pos())
		}
		cells := make([]Value, c)
		te := instr.Type().Underlying().(*types.Slice).Elem()
		for i := range cells {
			cells[i] = zero(te)
		}
		fr.set(instr, Slice{v: cells[:n], nonNil: true})
	case *ssa.MakeMap:
		fr.set(instr, &Map{index: map[string]int{}})
	case *ssa.Range:
		fr.set(instr, w.rangeIter(fr, fr.get(instr.X), instr.X.Type()))
	case *ssa.Next:
		fr.set(instr, fr.get(instr.Iter).(iterator).next(fr))
	case *ssa.FieldAddr:
		x := fr.get(instr.X)
		if sp, ok := x.(*SymPtr); ok {
			i := w.path.Concretize(sp.idx)
			x = &sp.cells[i]
		}
		p := x.(*Value)
		if p == nil {
			fr.goPanic("invalid memory address or nil pointer dereference", instr.Pos())
		}
		fr.set(instr, &(*p).(Struct)[instr.Field])
	case *ssa.Field:
		fr.set(instr, fr.get(instr.X).(Struct)[instr.Field])
	case *ssa.IndexAddr:
		fr.set(instr, fr.indexAddr(instr))
	case *ssa.Index:
		fr.set(instr, fr.index(instr))
	case *ssa.Lookup:
		fr.set(instr, fr.lookup(instr))
	case *ssa.MapUpdate:
		m := fr.get(instr.Map).(*Map)
		if m == nil {
			panic(targetPanic{v: Iface{t: w.rtErrType, v: mkStr("assignment to entry in nil map")}, where: fr.where(instr.Pos())})
		}
		w.mapInsert(m, fr.get(instr.Key), copyVal(fr.get(instr.Value)))
	case *ssa.TypeAssert:
		fr.set(instr, fr.typeAssert(instr, fr.get(instr.X).(Iface)))
	case *ssa.MakeClosure:
		var b []Value
		for _, x := range instr.Bindings {
			b = append(b, fr.get(x))
		}
		fr.set(instr, &Closure{instr.Fn.(*ssa.Function), b})
	case *ssa.Send:
		w.chanSend(fr, fr.get(instr.Chan).(*Chan), fr.get(instr.X), instr.Pos())
	case *ssa.Select:
		fr.set(instr, w.selectOp(fr, instr))
	case *ssa.SliceToArrayPointer:
		s := fr.get(instr.X).(Slice)
		n := instr.Type().Underlying().(*types.Pointer).Elem().Underlying().(*types.Array).Len()
		if int64(len(s.v)) < n {
			fr.goPanic("cannot convert slice to array pointer: length too short", instr.Pos())
		}
		p := new(Value)
		*p = Array(s.v[:n:n])
		fr.set(instr, p)
	default:
		panic(engineError{fmt.Sprintf("unexpected instruction %T", instr)})
	}
	return kNext
}

// concInt turns an integer value into a concrete one, forking if symbolic.
func (w *Worker) concInt(v Value) int64 {
	switch v := v.(type) {
	case int64:
		return v
	case *Term:
		return w.path.Concretize(v)
	case nil:
		return 0
	}
	panic(engineError{fmt.Sprintf("concInt: %T", v)})
}

// ---- memory ----

func isScalarCell(v Value) bool {
	switch v := v.(type) {
	case int64, bool:
		return true
	case *Term:
		return v.sort != SFP
	}
	return false
}

func (fr *frame) load(t types.Type, addr Value, pos token.Pos) Value {
	w := fr.w
	switch p := addr.(type) {
	case *Value:
		if p == nil {
			fr.goPanic("invalid memory address or nil pointer dereference", pos)
		}
		v := *p
		if t == nil {
			return copyVal(v)
		}
		// reinterpretation through unsafe.Pointer casts: []byte <-> string
		if b, ok := t.Underlying().(*types.Basic); ok && b.Info()&types.IsString != 0 {
			if s, ok := v.(Slice); ok {
				return Str{b: s.v}
			}
		}
		if _, ok := t.Underlying().(*types.Slice); ok {
			if s, ok := v.(Str); ok {
				s = w.cells(s)
				return Slice{v: s.b[:len(s.b):len(s.b)], nonNil: true}
			}
		}
		return copyVal(v)
	case *SymPtr:
		n := len(p.cells)
		for _, c := range p.cells {
			if !isScalarCell(c) {
				return w.loadByClass(p)
			}
		}
		var r *Term
		for i := n - 1; i >= 0; i-- {
			var c *Term
			switch cv := p.cells[i].(type) {
			case int64:
				c = intConst(cv)
			case bool:
				c = boolConst(cv)
			case *Term:
				c = cv
			}
			if r == nil {
				r = c
			} else {
				r = tIte(tEq(p.idx, intConst(int64(i))), c, r)
			}
		}
		if r.sort == SBool {
			return lowerBool(r)
		}
		if r.isConst() {
			return r.val.Int64()
		}
		return r
	}
	panic(engineError{fmt.Sprintf("load from %T", addr)})
}

// loadByClass reads cells[idx] for non-scalar cells: the cells are grouped
// into classes of equal (concrete) values and the path forks over classes,
// not over indices; the index itself stays symbolic.
func (w *Worker) loadByClass(p *SymPtr) Value {
	if v, ok := w.loadStrTable(p); ok {
		return v
	}
	type class struct {
		rep  Value
		idxs []int
	}
	var classes []*class
	byKey := map[string]*class{}
	for i, c := range p.cells {
		k, ok := canonKey(c)
		if !ok {
			j := w.path.Concretize(p.idx)
			return copyVal(p.cells[j])
		}
		cl := byKey[k]
		if cl == nil {
			cl = &class{rep: c}
			byKey[k] = cl
			classes = append(classes, cl)
		}
		cl.idxs = append(cl.idxs, i)
	}
	// smallest classes first so that the big default class needs no condition
	for i := 0; i < len(classes); i++ {
		for j := i + 1; j < len(classes); j++ {
			if len(classes[j].idxs) < len(classes[i].idxs) {
				classes[i], classes[j] = classes[j], classes[i]
			}
		}
	}
	for ci, cl := range classes {
		if ci == len(classes)-1 {
			break
		}
		cond := falseT
		for _, i := range cl.idxs {
			cond = tOr(cond, tEq(p.idx, intConst(int64(i))))
		}
		if w.path.Branch(cond) {
			return copyVal(cl.rep)
		}
	}
	return copyVal(classes[len(classes)-1].rep)
}

func (fr *frame) storeTo(t types.Type, addr Value, v Value, pos token.Pos) {
	w := fr.w
	switch p := addr.(type) {
	case *Value:
		if p == nil {
			fr.goPanic("invalid memory address or nil pointer dereference", pos)
		}
		w.storeDeep(p, v)
		return
	case *SymPtr:
		if !isScalarCell(v) {
			i := w.path.Concretize(p.idx)
			w.storeDeep(&p.cells[i], v)
			return
		}
		for i := range p.cells {
			old := p.cells[i]
			if !isScalarCell(old) {
				j := w.path.Concretize(p.idx)
				w.storeDeep(&p.cells[j], v)
				return
			}
			c := tEq(p.idx, intConst(int64(i)))
			var nv Value
			switch ov := old.(type) {
			case int64:
				nv = lowerIntAny(tIte(c, liftIntAny(v), intConst(ov)))
			case bool:
				nv = lowerBool(tIte(c, liftBool(v), boolConst(ov)))
			case *Term:
				if ov.sort == SBool {
					nv = lowerBool(tIte(c, liftBool(v), ov))
				} else {
					nv = lowerIntAny(tIte(c, liftIntAny(v), ov))
				}
			}
			w.store(&p.cells[i], nv)
		}
		return
	}
	panic(engineError{fmt.Sprintf("store to %T", addr)})
}

func liftIntAny(v Value) *Term {
	switch v := v.(type) {
	case int64:
		return intConst(v)
	case *Term:
		return v
	}
	panic(engineError{fmt.Sprintf("liftIntAny %T", v)})
}

func lowerIntAny(t *Term) Value {
	if t.isConst() {
		return t.val.Int64()
	}
	return t
}

// storeDeep stores v into *p, copying aggregates element-wise so that
// pointers to fields/elements of the destination stay valid.
func (w *Worker) storeDeep(p *Value, v Value) {
	switch nv := v.(type) {
	case Struct:
		if old, ok := (*p).(Struct); ok && len(old) == len(nv) {
			for i := range nv {
				w.storeDeep(&old[i], nv[i])
			}
			return
		}
		w.store(p, copyVal(v))
	case Array:
		if old, ok := (*p).(Array); ok && len(old) == len(nv) {
			for i := range nv {
				w.storeDeep(&old[i], nv[i])
			}
			return
		}
		w.store(p, copyVal(v))
	default:
		w.store(p, v)
	}
}

func (fr *frame) boundsBranch(idx *Term, n int, pos token.Pos, what string) {
	inRange := tAnd(tGe(idx, intConst(0)), tLt(idx, intConst(int64(n))))
	if !fr.w.path.Branch(inRange) {
		fr.goPanic(fmt.Sprintf("index out of range [symbolic] with length %d", n), pos)
	}
}

func (fr *frame) indexAddr(instr *ssa.IndexAddr) Value {
	w := fr.w
	x := fr.get(instr.X)
	idx := fr.get(instr.Index)
	var cells []Value
	switch x := x.(type) {
	case Slice:
		cells = x.v
	case *Value:
		if x == nil {
			fr.goPanic("invalid memory address or nil pointer dereference", instr.Pos())
		}
		cells = (*x).(Array)
	case *SymPtr:
		i := w.path.Concretize(x.idx)
		cells = x.cells[i].(Array)
	default:
		panic(engineError{fmt.Sprintf("IndexAddr on %T", x)})
	}
	switch i := idx.(type) {
	case int64:
		if i < 0 || i >= int64(len(cells)) {
			fr.goPanic(fmt.Sprintf("index out of range [%d] with length %d", i, len(cells)), instr.Pos())
		}
		return &cells[i]
	case *Term:
		fr.boundsBranch(i, len(cells), instr.Pos(), "index")
		if len(cells) == 1 {
			return &cells[0]
		}
		scalar := true
		for _, c := range cells {
			if !isScalarCell(c) {
				scalar = false
				break
			}
		}
		_ = scalar
		return &SymPtr{cells: cells, idx: i}
	}
	panic(engineError{fmt.Sprintf("IndexAddr index %T", idx)})
}

func (fr *frame) index(instr *ssa.Index) Value {
	w := fr.w
	x := fr.get(instr.X)
	idx := fr.get(instr.Index)
	var cells []Value
	switch x := x.(type) {
	case Array:
		cells = x
	case Str:
		cells = w.cells(x).b
	default:
		panic(engineError{fmt.Sprintf("Index on %T", x)})
	}
	switch i := idx.(type) {
	case int64:
		if i < 0 || i >= int64(len(cells)) {
			fr.goPanic(fmt.Sprintf("index out of range [%d] with length %d", i, len(cells)), instr.Pos())
		}
		return copyVal(cells[i])
	case *Term:
		fr.boundsBranch(i, len(cells), instr.Pos(), "index")
		return fr.load(nil, &SymPtr{cells: cells, idx: i}, instr.Pos())
	}
	panic(engineError{fmt.Sprintf("Index index %T", idx)})
}

func (fr *frame) sliceOp(instr *ssa.Slice) Value {
	w := fr.w
	x := fr.get(instr.X)
	var cells []Value
	isStr := false
	var capN int
	switch x := x.(type) {
	case Slice:
		cells = x.v
		capN = cap(x.v)
	case Str:
		xs := w.cells(x)
		cells = xs.b
		capN = len(cells)
		isStr = true
	case *Value:
		if x == nil {
			fr.goPanic("invalid memory address or nil pointer dereference", instr.Pos())
		}
		cells = (*x).(Array)
		capN = len(cells)
	default:
		panic(engineError{fmt.Sprintf("Slice on %T", x)})
	}
	// symbolic bounds: obligations first, then concretise
	getB := func(v ssa.Value, def int) (Value, bool) {
		if v == nil {
			return int64(def), false
		}
		return fr.get(v), true
	}
	lo, _ := getB(instr.Low, 0)
	hiDef := len(cells)
	hi, _ := getB(instr.High, hiDef)
	mx, hasMax := getB(instr.Max, capN)
	_, loSym := lo.(*Term)
	_, hiSym := hi.(*Term)
	_, mxSym := mx.(*Term)
	if loSym || hiSym || mxSym {
		k := intKind{64, true}
		l, h, m := liftInt(lo, k), liftInt(hi, k), liftInt(mx, k)
		limit := capN
		if isStr {
			limit = len(cells)
		}
		ok := tAnd(tAnd(tLe(intConst(0), l), tLe(l, h)), tAnd(tLe(h, m), tLe(m, intConst(int64(limit)))))
		if !w.path.Branch(ok) {
			fr.goPanic("slice bounds out of range [symbolic]", instr.Pos())
		}
	}
	l := int(w.concInt(lo))
	h := int(w.concInt(hi))
	m := int(w.concInt(mx))
	if isStr {
		if l < 0 || h < l || h > len(cells) {
			fr.goPanic(fmt.Sprintf("slice bounds out of range [%d:%d] with length %d", l, h, len(cells)), instr.Pos())
		}
		return Str{b: cells[l:h:h]}
	}
	if l < 0 || h < l || m < h || m > capN {
		fr.goPanic(fmt.Sprintf("slice bounds out of range [%d:%d:%d] with capacity %d", l, h, m, capN), instr.Pos())
	}
	_ = hasMax
	if s, ok := x.(Slice); ok && !s.nonNil && s.v == nil {
		return Slice{}
	}
	return Slice{v: cells[:capN][l:h:m], nonNil: true}
}

// ---- type assertions ----

func (fr *frame) typeAssert(instr *ssa.TypeAssert, itf Iface) Value {
	var ok bool
	var v Value
	if it, isIface := instr.AssertedType.Underlying().(*types.Interface); isIface {
		v = itf
		if itf.t != nil {
			ok = types.Implements(itf.t, it) || types.AssertableTo(it, itf.t) && implementsAll(fr.w.prog, itf.t, it)
		}
	} else {
		v = itf.v
		ok = itf.t != nil && types.Identical(itf.t, instr.AssertedType)
	}
	if !ok && !instr.CommaOk {
		msg := fmt.Sprintf("interface conversion: interface is %v, not %v", itf.t, instr.AssertedType)
		if itf.t == nil {
			msg = fmt.Sprintf("interface conversion: interface is nil, not %v", instr.AssertedType)
		}
		panic(targetPanic{v: Iface{t: fr.w.rtErrType, v: mkStr(msg)}, where: fr.where(instr.Pos())})
	}
	if instr.CommaOk {
		if !ok {
			v = zero(instr.AssertedType)
		}
		return Tuple{v, ok}
	}
	return v
}

func implementsAll(prog *ssa.Program, t types.Type, it *types.Interface) bool {
	ms := prog.MethodSets.MethodSet(t)
	for i := 0; i < it.NumMethods(); i++ {
		m := it.Method(i)
		if ms.Lookup(m.Pkg(), m.Name()) == nil {
			return false
		}
	}
	return true
}

// ---- init policy ----

var initDeny = map[string]bool{
	"os": true, "syscall": true, "runtime": true, "reflect": true, "sync": true,
	"internal/poll": true, "internal/syscall/unix": true, "internal/testlog": true, "internal/godebug": true,
	"internal/cpu": true, "internal/reflectlite": true, "sync/atomic": true, "internal/oserror": true,
	"io/fs": true, "os/signal": true, "os/exec": true, "net": true, "log": true, "testing": true, "flag": true,
	"internal/bytealg": true, "internal/abi": true, "internal/race": true, "internal/itoa": true, "path/filepath": true,
	"internal/fmtsort": true, "unsafe": true, "runtime/debug": true, "internal/goos": true, "internal/goarch": true,
	"os/user": true, "compress/flate": true, "hash/crc32": true, "context": true,
	"math/rand": true, "math/rand/v2": true, "crypto/rand": true, "internal/godebugs": true, "internal/bisect": true,
	"runtime/pprof": true, "runtime/trace": true, "text/tabwriter": true, "golang.org/x/sys/unix": true,
	"golang.org/x/term": true, "github.com/fsnotify/fsnotify": true, "regexp": true, "regexp/syntax": true,
	"encoding/json": true, "encoding/base64": true, "encoding/binary": true, "html": true, "html/template": true,
	"text/template": true, "text/template/parse": true, "net/url": true, "go/token": true, "go/scanner": true, "go/ast": true,
	"github.com/urfave/cli/v2": true, "github.com/russross/blackfriday/v2": true, "github.com/cpuguy83/go-md2man/v2/md2man": true,
	"github.com/xrash/smetrics": true, "github.com/tidwall/gjson": true,
	"github.com/tidwall/match": true, "github.com/tidwall/pretty": true, "mime": true, "math/big": true,
	"hash/fnv": true, "hash/adler32": true, "hash": true, "errors": true,
}

func (w *Worker) initAllowed(path string) bool {
	if initDeny[path] {
		w.initSkipped[path] = true
		return false
	}
	if strings.HasPrefix(path, "internal/") || strings.HasPrefix(path, "runtime/") || strings.HasPrefix(path, "vendor/") || strings.HasPrefix(path, "crypto/") || strings.HasPrefix(path, "net/") {
		w.initSkipped[path] = true
		return false
	}
	return true
}

var _ = big.NewInt

// loadStrTable reads cells[idx] from a table of concrete strings without
// forking over the entries: the path forks over the distinct *lengths* only,
// and inside one length class every byte is an ite-chain over the index.
func (w *Worker) loadStrTable(p *SymPtr) (Value, bool) {
	strs := make([]string, len(p.cells))
	for i, c := range p.cells {
		s, ok := c.(Str)
		if !ok {
			return nil, false
		}
		cs, ok := s.concrete()
		if !ok {
			return nil, false
		}
		strs[i] = cs
	}
	byLen := map[int][]int{}
	var lens []int
	for i, s := range strs {
		if _, ok := byLen[len(s)]; !ok {
			lens = append(lens, len(s))
		}
		byLen[len(s)] = append(byLen[len(s)], i)
	}
	chosen := lens[len(lens)-1]
	for _, l := range lens[:len(lens)-1] {
		cond := falseT
		for _, i := range byLen[l] {
			cond = tOr(cond, tEq(p.idx, intConst(int64(i))))
		}
		if w.path.Branch(cond) {
			chosen = l
			break
		}
	}
	idxs := byLen[chosen]
	out := make([]Value, chosen)
	for k := 0; k < chosen; k++ {
		var r *Term
		same := true
		for j := len(idxs) - 1; j >= 0; j-- {
			c := intConst(int64(strs[idxs[j]][k]))
			if strs[idxs[j]][k] != strs[idxs[0]][k] {
				same = false
			}
			if r == nil {
				r = c
			} else {
				r = tIte(tEq(p.idx, intConst(int64(idxs[j]))), c, r)
			}
		}
		if same {
			out[k] = int64(strs[idxs[0]][k])
		} else {
			lo, hi := 255, 0
			for _, j := range idxs {
				if b := int(strs[j][k]); b < lo {
					lo = b
				}
				if b := int(strs[j][k]); b > hi {
					hi = b
				}
			}
			r.lo, r.hi = big.NewInt(int64(lo)), big.NewInt(int64(hi))
			out[k] = r
		}
	}
	return Str{b: out}, true
}
