package main

// Opaque decimal renderings of numbers (DESIGN 1.4): strconv formatting of a
// symbolic integer yields a tagged string; parsing a tagged string returns
// the number. Trusted contract: Go's integer formatting/parsing round-trips.
// Bytes of a tagged integer string are materialised lazily and exactly.

import (
	"fmt"
	"math"
	"math/big"
	"strconv"
)

func (w *Worker) cells(s Str) Str {
	if s.tag == nil || s.b != nil {
		return s
	}
	tg := s.tag
	if tg.isFloat {
		if f, ok := tg.fpOf.(float64); ok {
			return mkStr(strconv.FormatFloat(f, 'f', -1, 64))
		}
		if !w.absFloatText {
			panic(engineError{"imprecise: the bytes of a FloatStr (shortest float rendering of a symbolic float) were inspected"})
		}
		if tg.mat != nil {
			return Str{b: tg.mat, tag: tg}
		}
		// the text is a function of (value, format, precision): one abstraction per distinct triple on a path
		h1, h2 := liftFloat(tg.fpOf).hash()
		key := fmt.Sprintf("%x.%x/%c/%d", h1, h2, tg.fmtC, tg.prec)
		if tg.precT != nil {
			p1, p2 := tg.precT.hash()
			key += fmt.Sprintf("/%x.%x", p1, p2)
		}
		if w.path.absText == nil {
			w.path.absText = map[string][]Value{}
		}
		if m, ok := w.path.absText[key]; ok {
			tg.mat = m
		} else {
			tg.mat = w.abstractFloatText(tg)
			w.path.absText[key] = tg.mat
		}
		return Str{b: tg.mat, tag: tg}
	}
	if tg.mat != nil {
		return Str{b: tg.mat, tag: tg}
	}
	p := w.path
	t := tg.intOf
	// the digits are a function of the integer: one materialisation per distinct term on a path
	ih1, ih2 := t.hash()
	ikey := fmt.Sprintf("int/%x.%x", ih1, ih2)
	if p.absText == nil {
		p.absText = map[string][]Value{}
	}
	if m, ok := p.absText[ikey]; ok {
		tg.mat = m
		return Str{b: m, tag: tg}
	}
	neg := p.Branch(tLt(t, intConst(0)))
	abs := t
	if neg {
		abs = tNeg(t)
	}
	d := 1
	for d < 20 {
		if p.Branch(tLt(abs, intConstBig(new(big.Int).Exp(big.NewInt(10), big.NewInt(int64(d)), nil)))) {
			break
		}
		d++
	}
	var cellsV []Value
	if neg {
		cellsV = append(cellsV, int64('-'))
	}
	// digits shared by every value in the known interval of |x| are concrete
	shared := 0
	var loS string
	if abs.lo != nil && abs.hi != nil && abs.lo.Sign() >= 0 {
		loS, hiS := abs.lo.String(), abs.hi.String()
		if len(loS) == d && len(hiS) == d {
			for shared < d && loS[shared] == hiS[shared] {
				shared++
			}
		}
	}
	if shared > 0 {
		loS = abs.lo.String()
	}
	sum := intConst(0)
	for i := 0; i < d; i++ {
		if i < shared {
			sum = tAdd(tMul(sum, intConst(10)), intConst(int64(loS[i]-'0')))
			cellsV = append(cellsV, int64(loS[i]))
			continue
		}
		lo := int64(0)
		if i == 0 && d > 1 {
			lo = 1
		}
		dv := newVar(fmt.Sprintf("d%d", p.nvar), SInt, big.NewInt(lo), big.NewInt(9))
		p.nvar++
		p.declare(dv)
		sum = tAdd(tMul(sum, intConst(10)), dv)
		cellsV = append(cellsV, lowerIntAny(tAdd(dv, intConst('0'))))
	}
	p.assertTerm(tEq(sum, abs))
	p.modelOK = false
	tg.mat = cellsV
	p.absText[ikey] = cellsV
	return Str{b: cellsV, tag: tg}
}

func (w *Worker) strLen(s Str) Value {
	return int64(len(w.cells(s).b))
}

func init() {
	// ---- formatting ----
	fmtInt := func(fr *frame, v Value, base Value, k intKind) (Value, bool) {
		b, ok := base.(int64)
		if !ok {
			return nil, false
		}
		switch x := v.(type) {
		case int64:
			if k.signed {
				return mkStr(strconv.FormatInt(x, int(b))), true
			}
			return mkStr(strconv.FormatUint(uint64(x), int(b))), true
		case *Term:
			if b != 10 {
				panic(engineError{"FormatInt of a symbolic value in base != 10"})
			}
			return Str{tag: &StrTag{intOf: x}}, true
		}
		return nil, false
	}
	intrinsics["strconv.FormatInt"] = func(fr *frame, a []Value) (Value, bool) { return fmtInt(fr, a[0], a[1], ik64) }
	intrinsics["strconv.FormatUint"] = func(fr *frame, a []Value) (Value, bool) { return fmtInt(fr, a[0], a[1], intKind{64, false}) }
	intrinsics["strconv.Itoa"] = func(fr *frame, a []Value) (Value, bool) { return fmtInt(fr, a[0], int64(10), ik64) }
	intrinsics["strconv.AppendInt"] = func(fr *frame, a []Value) (Value, bool) {
		s, ok := fmtInt(fr, a[1], a[2], ik64)
		if !ok {
			return nil, false
		}
		return fr.w.appendVals(a[0].(Slice), fr.w.cells(s.(Str)).b, int64(0)), true
	}
	intrinsics["strconv.AppendUint"] = func(fr *frame, a []Value) (Value, bool) {
		s, ok := fmtInt(fr, a[1], a[2], intKind{64, false})
		if !ok {
			return nil, false
		}
		return fr.w.appendVals(a[0].(Slice), fr.w.cells(s.(Str)).b, int64(0)), true
	}
	fmtFloat := func(fr *frame, a []Value) (Value, bool) {
		f, fc := a[0].(float64)
		fm, ok1 := a[1].(int64)
		prec, ok2 := a[2].(int64)
		bits, ok3 := a[3].(int64)
		if _, symPrec := a[2].(*Term); symPrec && ok1 && ok3 {
			// FormatFloat does not panic for any precision; its memory use for huge precisions is outside every claim
			fr.w.stub("strconv.FormatFloat with a symbolic precision: opaque result (memory use outside the claim)")
			return Str{tag: &StrTag{isFloat: true, fpOf: a[0], fmtC: byte(fm), prec: -2, precT: a[2].(*Term)}}, true
		}
		if !ok1 || !ok2 || !ok3 {
			return nil, false
		}
		if fc {
			return mkStr(strconv.FormatFloat(f, byte(fm), int(prec), int(bits))), true
		}
		return Str{tag: &StrTag{isFloat: true, fpOf: a[0], fmtC: byte(fm), prec: int(prec)}}, true
	}
	intrinsics["strconv.FormatFloat"] = fmtFloat
	intrinsics["strconv.AppendFloat"] = func(fr *frame, a []Value) (Value, bool) {
		s, ok := fmtFloat(fr, a[1:])
		if !ok {
			return nil, false
		}
		return fr.w.appendVals(a[0].(Slice), fr.w.cells(s.(Str)).b, int64(0)), true
	}

	// ---- parsing ----
	parseInt := func(fr *frame, s Str, base, bitSize int64, signed bool) (Value, bool) {
		w := fr.w
		if s.tag == nil || s.tag.isFloat || (base != 10 && base != 0) {
			if cs, ok := s.concrete(); ok {
				// concrete fast path: native
				var v int64
				var err error
				if signed {
					v, err = strconv.ParseInt(cs, int(base), int(bitSize))
				} else {
					var u uint64
					u, err = strconv.ParseUint(cs, int(base), int(bitSize))
					v = int64(u)
				}
				if err == nil {
					return Tuple{v, Iface{}}, true
				}
			}
			return nil, false
		}
		t := s.tag.intOf
		if bitSize == 0 {
			bitSize = 64
		}
		var lo, hi *big.Int
		if signed {
			lo = new(big.Int).Neg(pow2(uint(bitSize - 1)))
			hi = new(big.Int).Sub(pow2(uint(bitSize-1)), big1)
		} else {
			lo = big0
			hi = new(big.Int).Sub(pow2(uint(bitSize)), big1)
		}
		inRange := tAnd(tGe(t, intConstBig(lo)), tLe(t, intConstBig(hi)))
		if !w.path.Branch(inRange) {
			// out of range (or negative for unsigned): fall back to real code on materialised bytes
			return nil, false
		}
		return Tuple{lowerInt(t, intKind{64, signed}), Iface{}}, true
	}
	intrinsics["strconv.ParseInt"] = func(fr *frame, a []Value) (Value, bool) {
		b, ok1 := a[1].(int64)
		bs, ok2 := a[2].(int64)
		if !ok1 || !ok2 {
			return nil, false
		}
		return parseInt(fr, a[0].(Str), b, bs, true)
	}
	intrinsics["strconv.ParseUint"] = func(fr *frame, a []Value) (Value, bool) {
		b, ok1 := a[1].(int64)
		bs, ok2 := a[2].(int64)
		if !ok1 || !ok2 {
			return nil, false
		}
		return parseInt(fr, a[0].(Str), b, bs, false)
	}
	intrinsics["strconv.Atoi"] = func(fr *frame, a []Value) (Value, bool) {
		return parseInt(fr, a[0].(Str), 10, 0, true)
	}
	intrinsics["strconv.ParseFloat"] = func(fr *frame, a []Value) (Value, bool) {
		s := a[0].(Str)
		if s.tag != nil {
			if s.tag.isFloat {
				if s.tag.prec != -1 {
					panic(engineError{"imprecise: ParseFloat of a float rendered with fixed precision"})
				}
				fr.w.stub("ParseFloat(FormatFloat(f)) == f (trusted round trip)")
				if bs, _ := a[1].(int64); bs == 32 {
					// bitSize 32: the value is rounded to float32 (range errors are not modelled: imprecise beyond float32's range)
					switch fv := s.tag.fpOf.(type) {
					case float64:
						if math.IsInf(float64(float32(fv)), 0) && !math.IsInf(fv, 0) {
							panic(engineError{"imprecise: ParseFloat(.., 32) outside float32's range"})
						}
						return Tuple{float64(float32(fv)), Iface{}}, true
					case *Term:
						rm := &Term{op: "const", sort: SFP, raw: "RNE", size: 1}
						fin := tFP("fp.leq", SBool, tFP("fp.abs", SFP, fv), fpConstLit(3.4e38))
						if !fr.w.path.Branch(tOr(fin, tNot(tFP("fp.leq", SBool, tFP("fp.abs", SFP, fv), fpConstLit(math.MaxFloat64))))) {
							panic(engineError{"imprecise: ParseFloat(.., 32) outside float32's range"})
						}
						return Tuple{tFP("(_ to_fp 11 53)", SFP, rm, tFP("(_ to_fp 8 24)", SFP, rm, fv)), Iface{}}, true
					}
				}
				return Tuple{s.tag.fpOf, Iface{}}, true
			}
			t := s.tag.intOf
			return Tuple{fr.w.intToFloat(t), Iface{}}, true
		}
		if cs, ok := s.concrete(); ok {
			bs, _ := a[1].(int64)
			f, err := strconv.ParseFloat(cs, int(bs))
			if err == nil {
				return Tuple{f, Iface{}}, true
			}
			if math.IsInf(f, 0) {
				return nil, false
			}
			return nil, false
		}
		if fr.w.opaqueParseFloat {
			w := fr.w
			w.stub("strconv.ParseFloat of symbolic bytes: arbitrary (float64, nil) or (0, error)")
			key := "ParseFloat"
			for _, c := range w.cells(s).b {
				h1, h2 := liftIntAny(c).hash()
				key += fmt.Sprintf("/%x.%x", h1, h2)
			}
			if w.path.opaque == nil {
				w.path.opaque = map[string]*Term{}
			}
			// one decision and one value per distinct byte string on a path (ParseFloat is a function)
			dec, seen := w.path.opaque[key+"?"]
			if !seen {
				dec = boolConst(len(w.cells(s).b) > 0 && w.path.Choice(2) == 0)
				w.path.opaque[key+"?"] = dec
			}
			if dec.bval {
				t, ok := w.path.opaque[key]
				if !ok {
					t = w.path.freshFP()
					w.path.opaque[key] = t
				}
				return Tuple{t, Iface{}}, true
			}
			return Tuple{float64(0), w.newError(fr, "strconv.ParseFloat: parsing: invalid syntax")}, true
		}
		return nil, false
	}
}

// abstractFloatText: the text of FormatFloat(f, 'f'|'g'|'e', prec) for a
// symbolic f, abstracted to its shape: NaN / +Inf / -Inf (tied to f), or
// sign (tied to f), 1..4 integer digits and 0..1 fraction digits (prec when
// it is a small constant) whose values are NOT tied to f. Over-approximates
// the digit values, under-approximates the length; enabled per harness with
// zz.AbstractFloatText for properties that only talk about crashes or shape.
func (w *Worker) abstractFloatText(tg *StrTag) []Value {
	p := w.path
	w.stub("text of a symbolic float abstracted to its shape ([-]d{1,4}[.d] | NaN | +Inf | -Inf), digits not tied to the value")
	f := liftFloat(tg.fpOf)
	str := func(s string) []Value { return mkStr(s).b }
	if p.Branch(tFP("fp.isNaN", SBool, f)) {
		return str("NaN")
	}
	neg := p.Branch(tFP("fp.isNegative", SBool, f))
	if p.Branch(tFP("fp.isInfinite", SBool, f)) {
		if neg {
			return str("-Inf")
		}
		return str("+Inf")
	}
	var out []Value
	if neg {
		out = append(out, int64('-'))
	}
	digit := func() Value {
		dv := newVar(fmt.Sprintf("fd%d", p.nvar), SInt, big.NewInt('0'), big.NewInt('9'))
		p.nvar++
		p.declare(dv)
		return dv
	}
	di := 1 + p.Choice(4)
	for i := 0; i < di; i++ {
		out = append(out, digit())
	}
	df := 0
	switch {
	case tg.prec >= 0 && tg.prec <= 6:
		df = tg.prec
	case tg.prec > 6:
		panic(engineError{"imprecise: float text with a precision above 6"})
	default:
		df = p.Choice(2)
	}
	if df > 0 {
		out = append(out, int64('.'))
		for i := 0; i < df; i++ {
			out = append(out, digit())
		}
	}
	p.modelOK = false
	return out
}
