package main

// Opaque decimal renderings of numbers (DESIGN 1.4): strconv formatting of a
// symbolic integer yields a tagged string; parsing a tagged string returns
// the number. Trusted contract: Go's integer formatting/parsing round-trips.
// Bytes of a tagged integer string are materialised lazily and exactly.

import (
	"fmt"
	"math"
	"math/big"
	"strconv"
)

func (w *Worker) cells(s Str) Str {
	if s.tag == nil || s.b != nil {
		return s
	}
	tg := s.tag
	if tg.isFloat {
		if f, ok := tg.fpOf.(float64); ok {
			return mkStr(strconv.FormatFloat(f, 'f', -1, 64))
		}
		panic(engineError{"imprecise: the bytes of a FloatStr (shortest float rendering of a symbolic float) were inspected"})
	}
	if tg.mat != nil {
		return Str{b: tg.mat, tag: tg}
	}
	p := w.path
	t := tg.intOf
	neg := p.Branch(tLt(t, intConst(0)))
	abs := t
	if neg {
		abs = tNeg(t)
	}
	d := 1
	for d < 20 {
		if p.Branch(tLt(abs, intConstBig(new(big.Int).Exp(big.NewInt(10), big.NewInt(int64(d)), nil)))) {
			break
		}
		d++
	}
	var cellsV []Value
	if neg {
		cellsV = append(cellsV, int64('-'))
	}
	sum := intConst(0)
	for i := 0; i < d; i++ {
		lo := int64(0)
		if i == 0 && d > 1 {
			lo = 1
		}
		dv := newVar(fmt.Sprintf("d%d", p.nvar), SInt, big.NewInt(lo), big.NewInt(9))
		p.nvar++
		p.declare(dv)
		sum = tAdd(tMul(sum, intConst(10)), dv)
		cellsV = append(cellsV, lowerIntAny(tAdd(dv, intConst('0'))))
	}
	p.assertTerm(tEq(sum, abs))
	p.modelOK = false
	tg.mat = cellsV
	return Str{b: cellsV, tag: tg}
}

func (w *Worker) strLen(s Str) Value {
	return int64(len(w.cells(s).b))
}

func init() {
	// ---- formatting ----
	fmtInt := func(fr *frame, v Value, base Value, k intKind) (Value, bool) {
		b, ok := base.(int64)
		if !ok {
			return nil, false
		}
		switch x := v.(type) {
		case int64:
			if k.signed {
				return mkStr(strconv.FormatInt(x, int(b))), true
			}
			return mkStr(strconv.FormatUint(uint64(x), int(b))), true
		case *Term:
			if b != 10 {
				panic(engineError{"FormatInt of a symbolic value in base != 10"})
			}
			return Str{tag: &StrTag{intOf: x}}, true
		}
		return nil, false
	}
	intrinsics["strconv.FormatInt"] = func(fr *frame, a []Value) (Value, bool) { return fmtInt(fr, a[0], a[1], ik64) }
	intrinsics["strconv.FormatUint"] = func(fr *frame, a []Value) (Value, bool) { return fmtInt(fr, a[0], a[1], intKind{64, false}) }
	intrinsics["strconv.Itoa"] = func(fr *frame, a []Value) (Value, bool) { return fmtInt(fr, a[0], int64(10), ik64) }
	intrinsics["strconv.AppendInt"] = func(fr *frame, a []Value) (Value, bool) {
		s, ok := fmtInt(fr, a[1], a[2], ik64)
		if !ok {
			return nil, false
		}
		return fr.w.appendVals(a[0].(Slice), fr.w.cells(s.(Str)).b, int64(0)), true
	}
	intrinsics["strconv.AppendUint"] = func(fr *frame, a []Value) (Value, bool) {
		s, ok := fmtInt(fr, a[1], a[2], intKind{64, false})
		if !ok {
			return nil, false
		}
		return fr.w.appendVals(a[0].(Slice), fr.w.cells(s.(Str)).b, int64(0)), true
	}
	fmtFloat := func(fr *frame, a []Value) (Value, bool) {
		f, fc := a[0].(float64)
		fm, ok1 := a[1].(int64)
		prec, ok2 := a[2].(int64)
		bits, ok3 := a[3].(int64)
		if !ok1 || !ok2 || !ok3 {
			return nil, false
		}
		if fc {
			return mkStr(strconv.FormatFloat(f, byte(fm), int(prec), int(bits))), true
		}
		return Str{tag: &StrTag{isFloat: true, fpOf: a[0], fmtC: byte(fm), prec: int(prec)}}, true
	}
	intrinsics["strconv.FormatFloat"] = fmtFloat
	intrinsics["strconv.AppendFloat"] = func(fr *frame, a []Value) (Value, bool) {
		s, ok := fmtFloat(fr, a[1:])
		if !ok {
			return nil, false
		}
		return fr.w.appendVals(a[0].(Slice), fr.w.cells(s.(Str)).b, int64(0)), true
	}

	// ---- parsing ----
	parseInt := func(fr *frame, s Str, base, bitSize int64, signed bool) (Value, bool) {
		w := fr.w
		if s.tag == nil || s.tag.isFloat || (base != 10 && base != 0) {
			if cs, ok := s.concrete(); ok {
				// concrete fast path: native
				var v int64
				var err error
				if signed {
					v, err = strconv.ParseInt(cs, int(base), int(bitSize))
				} else {
					var u uint64
					u, err = strconv.ParseUint(cs, int(base), int(bitSize))
					v = int64(u)
				}
				if err == nil {
					return Tuple{v, Iface{}}, true
				}
			}
			return nil, false
		}
		t := s.tag.intOf
		if bitSize == 0 {
			bitSize = 64
		}
		var lo, hi *big.Int
		if signed {
			lo = new(big.Int).Neg(pow2(uint(bitSize - 1)))
			hi = new(big.Int).Sub(pow2(uint(bitSize-1)), big1)
		} else {
			lo = big0
			hi = new(big.Int).Sub(pow2(uint(bitSize)), big1)
		}
		inRange := tAnd(tGe(t, intConstBig(lo)), tLe(t, intConstBig(hi)))
		if !w.path.Branch(inRange) {
			// out of range (or negative for unsigned): fall back to real code on materialised bytes
			return nil, false
		}
		return Tuple{lowerInt(t, intKind{64, signed}), Iface{}}, true
	}
	intrinsics["strconv.ParseInt"] = func(fr *frame, a []Value) (Value, bool) {
		b, ok1 := a[1].(int64)
		bs, ok2 := a[2].(int64)
		if !ok1 || !ok2 {
			return nil, false
		}
		return parseInt(fr, a[0].(Str), b, bs, true)
	}
	intrinsics["strconv.ParseUint"] = func(fr *frame, a []Value) (Value, bool) {
		b, ok1 := a[1].(int64)
		bs, ok2 := a[2].(int64)
		if !ok1 || !ok2 {
			return nil, false
		}
		return parseInt(fr, a[0].(Str), b, bs, false)
	}
	intrinsics["strconv.Atoi"] = func(fr *frame, a []Value) (Value, bool) {
		return parseInt(fr, a[0].(Str), 10, 0, true)
	}
	intrinsics["strconv.ParseFloat"] = func(fr *frame, a []Value) (Value, bool) {
		s := a[0].(Str)
		if s.tag != nil {
			if s.tag.isFloat {
				if s.tag.prec != -1 {
					panic(engineError{"imprecise: ParseFloat of a float rendered with fixed precision"})
				}
				fr.w.stub("ParseFloat(FormatFloat(f)) == f (trusted round trip)")
				return Tuple{s.tag.fpOf, Iface{}}, true
			}
			t := s.tag.intOf
			rm := &Term{op: "const", sort: SFP, raw: "RNE", size: 1}
			return Tuple{tFP("(_ to_fp 11 53)", SFP, rm, newTerm("to_real", SInt, t)), Iface{}}, true
		}
		if cs, ok := s.concrete(); ok {
			bs, _ := a[1].(int64)
			f, err := strconv.ParseFloat(cs, int(bs))
			if err == nil {
				return Tuple{f, Iface{}}, true
			}
			if math.IsInf(f, 0) {
				return nil, false
			}
		}
		return nil, false
	}
}
