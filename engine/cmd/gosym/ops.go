package main

// Operators, conversions, maps, iterators and builtins.

import (
	"fmt"
	"go/token"
	"go/types"
	"math"
	"math/big"
	"unicode/utf8"

	"golang.org/x/tools/go/ssa"
)

func (fr *frame) unop(instr *ssa.UnOp, x Value) Value {
	w := fr.w
	switch instr.Op {
	case token.MUL: // load
		if w.sched != nil && w.sched.race != nil {
			if vp, ok := x.(*Value); ok {
				w.raceAccess(fr, vp, false, instr.Pos())
			}
		}
		return fr.load(derefType(instr.X.Type()), x, instr.Pos())
	case token.ARROW:
		return w.chanRecv(fr, x.(*Chan), instr.CommaOk, instr.Type(), instr.Pos())
	case token.NOT:
		switch x := x.(type) {
		case bool:
			return !x
		case *Term:
			return lowerBool(tNot(x))
		}
	case token.SUB:
		if k, ok := typeIntKind(instr.X.Type()); ok {
			switch x := x.(type) {
			case int64:
				return wrapConc(-x, k)
			case *Term:
				return lowerInt(tWrap(tNeg(x), k.bits, k.signed), k)
			}
		}
		switch x := x.(type) {
		case float64:
			return -x
		case *Term:
			return tFP("fp.neg", SFP, x)
		}
	case token.XOR:
		k, _ := typeIntKind(instr.X.Type())
		switch x := x.(type) {
		case int64:
			return wrapConc(^x, k)
		case *Term:
			// ^x = -x-1 (signed), 2^w-1-x (unsigned)
			if k.signed {
				return lowerInt(tSub(tNeg(x), intConst(1)), k)
			}
			return lowerInt(tSub(intConstBig(new(big.Int).Sub(pow2(k.bits), big1)), x), k)
		}
	}
	panic(engineError{fmt.Sprintf("unop %v on %T", instr.Op, x)})
}

func cmpOpInt(op token.Token, c int) bool {
	switch op {
	case token.EQL:
		return c == 0
	case token.NEQ:
		return c != 0
	case token.LSS:
		return c < 0
	case token.LEQ:
		return c <= 0
	case token.GTR:
		return c > 0
	case token.GEQ:
		return c >= 0
	}
	panic("cmpOpInt")
}

func (fr *frame) binop(op token.Token, t types.Type, x, y Value, pos token.Pos) Value {
	w := fr.w
	// comparisons of non-numeric things first
	switch op {
	case token.EQL:
		if _, isNum := numericOperand(t, x, y); !isNum {
			return lowerBool(w.eqVal(x, y))
		}
	case token.NEQ:
		if _, isNum := numericOperand(t, x, y); !isNum {
			return lowerBool(tNot(w.eqVal(x, y)))
		}
	}
	if k, ok := typeIntKind(t); ok {
		xi, xc := x.(int64)
		yi, yc := y.(int64)
		if op == token.SHL || op == token.SHR {
			return fr.shift(op, k, x, y, pos)
		}
		if xc && yc {
			return fr.binopConcInt(op, k, xi, yi, pos)
		}
		a, b := liftInt(x, k), liftInt(y, k)
		switch op {
		case token.ADD:
			return lowerInt(tWrap(tAdd(a, b), k.bits, k.signed), k)
		case token.SUB:
			return lowerInt(tWrap(tSub(a, b), k.bits, k.signed), k)
		case token.MUL:
			return lowerInt(tWrap(tMul(a, b), k.bits, k.signed), k)
		case token.QUO, token.REM:
			if !w.path.Branch(tNot(tEq(b, intConst(0)))) {
				fr.goPanic("integer divide by zero", pos)
			}
			if w.splitDiv && !b.isConst() && w.path.Branch(tGe(a, intConst(0))) && w.path.Branch(tGt(b, intConst(0))) {
				q, r := w.splitQuotient(a, b)
				if op == token.QUO {
					return lowerInt(q, k)
				}
				return lowerInt(r, k)
			}
			if op == token.QUO {
				if k.signed {
					return lowerInt(tWrap(tQuoT(a, b), k.bits, true), k)
				}
				return lowerInt(tDivE(a, b), k)
			}
			if k.signed {
				return lowerInt(tRemT(a, b), k)
			}
			return lowerInt(tModE(a, b), k)
		case token.AND:
			// x & (2^j - 1) == x mod 2^j
			if b.isConst() {
				if j, ok := lowMask(b.val); ok {
					return lowerInt(tModE(a, intConstBig(pow2(j))), k)
				}
			}
			if a.isConst() {
				if j, ok := lowMask(a.val); ok {
					return lowerInt(tModE(b, intConstBig(pow2(j))), k)
				}
			}
			return lowerInt(tBvOp("bvand", a, b, k.bits, k.signed), k)
		case token.OR:
			return lowerInt(tBvOp("bvor", a, b, k.bits, k.signed), k)
		case token.XOR:
			return lowerInt(tBvOp("bvxor", a, b, k.bits, k.signed), k)
		case token.AND_NOT:
			nb := newTerm("bvnot", SInt, newTerm(fmt.Sprintf("(_ int2bv %d)", k.bits), SInt, b))
			r := newTerm("bvand", SInt, newTerm(fmt.Sprintf("(_ int2bv %d)", k.bits), SInt, a), nb)
			u := newTerm("bv2nat", SInt, r)
			u.lo, u.hi = big0, new(big.Int).Sub(pow2(k.bits), big1)
			return lowerInt(tWrap(u, k.bits, k.signed), k)
		case token.EQL:
			return lowerBool(tEq(a, b))
		case token.NEQ:
			return lowerBool(tNot(tEq(a, b)))
		case token.LSS:
			return lowerBool(tLt(a, b))
		case token.LEQ:
			return lowerBool(tLe(a, b))
		case token.GTR:
			return lowerBool(tGt(a, b))
		case token.GEQ:
			return lowerBool(tGe(a, b))
		}
		panic(engineError{fmt.Sprintf("int binop %v", op)})
	}
	if isFloatType(t) {
		xf, xc := x.(float64)
		yf, yc := y.(float64)
		if xc && yc {
			is32 := t.Underlying().(*types.Basic).Kind() == types.Float32
			r32 := func(f float64) float64 {
				if is32 {
					return float64(float32(f))
				}
				return f
			}
			switch op {
			case token.ADD:
				return r32(xf + yf)
			case token.SUB:
				return r32(xf - yf)
			case token.MUL:
				return r32(xf * yf)
			case token.QUO:
				return r32(xf / yf)
			case token.EQL:
				return xf == yf
			case token.NEQ:
				return xf != yf
			case token.LSS:
				return xf < yf
			case token.LEQ:
				return xf <= yf
			case token.GTR:
				return xf > yf
			case token.GEQ:
				return xf >= yf
			}
		}
		// comparisons of exactly converted integers are integer comparisons
		if ia, ok := fpIntOrigin(x); ok {
			if ib, ok := fpIntOrigin(y); ok {
				switch op {
				case token.EQL:
					return lowerBool(tEq(ia, ib))
				case token.NEQ:
					return lowerBool(tNot(tEq(ia, ib)))
				case token.LSS:
					return lowerBool(tLt(ia, ib))
				case token.LEQ:
					return lowerBool(tLe(ia, ib))
				case token.GTR:
					return lowerBool(tGt(ia, ib))
				case token.GEQ:
					return lowerBool(tGe(ia, ib))
				}
			}
		}
		if r, ok := fpConvCmpConst(op, x, y); ok {
			return lowerBool(r)
		}
		if r, ok := w.fpConvCmpConv(op, x, y); ok {
			return r
		}
		// sums and differences of exactly converted integers whose result is again
		// exactly representable (|.| <= 2^53) are exact: float64(a) - float64(b) == float64(a-b)
		if op == token.ADD || op == token.SUB {
			if ia, ok := fpIntOrigin(x); ok {
				if ib, ok := fpIntOrigin(y); ok {
					var r *Term
					if op == token.ADD {
						r = tAdd(ia, ib)
					} else {
						r = tSub(ia, ib)
					}
					lim := pow2(53)
					if r.isConst() {
						if new(big.Int).Abs(r.val).Cmp(lim) <= 0 {
							f, _ := new(big.Float).SetInt(r.val).Float64()
							return f
						}
					} else if r.lo != nil && r.hi != nil && new(big.Int).Abs(r.lo).Cmp(lim) <= 0 && new(big.Int).Abs(r.hi).Cmp(lim) <= 0 {
						return w.intToFloat(r)
					}
				}
			}
		}
		a, b := liftFloat(x), liftFloat(y)
		rm := &Term{op: "const", sort: SFP, raw: "RNE", size: 1}
		if w.absFloatArith {
			switch op {
			case token.ADD, token.SUB, token.MUL, token.QUO:
				return w.opaqueFloatFn("float64 "+op.String(), a, b)
			}
		}
		switch op {
		case token.ADD:
			return tFP("fp.add", SFP, rm, a, b)
		case token.SUB:
			return tFP("fp.sub", SFP, rm, a, b)
		case token.MUL:
			return tFP("fp.mul", SFP, rm, a, b)
		case token.QUO:
			return tFP("fp.div", SFP, rm, a, b)
		case token.EQL:
			return tFP("fp.eq", SBool, a, b)
		case token.NEQ:
			return tNot(tFP("fp.eq", SBool, a, b))
		case token.LSS:
			return tFP("fp.lt", SBool, a, b)
		case token.LEQ:
			return tFP("fp.leq", SBool, a, b)
		case token.GTR:
			return tFP("fp.gt", SBool, a, b)
		case token.GEQ:
			return tFP("fp.geq", SBool, a, b)
		}
		panic(engineError{fmt.Sprintf("float binop %v", op)})
	}
	if b, ok := t.Underlying().(*types.Basic); ok && b.Info()&types.IsString != 0 {
		xs, ys := x.(Str), y.(Str)
		switch op {
		case token.ADD:
			xs, ys = w.cells(xs), w.cells(ys)
			if len(xs.b) == 0 {
				return ys
			}
			if len(ys.b) == 0 {
				return xs
			}
			nb := make([]Value, 0, len(xs.b)+len(ys.b))
			nb = append(nb, xs.b...)
			nb = append(nb, ys.b...)
			return Str{b: nb}
		case token.LSS:
			return lowerBool(w.strLess(xs, ys))
		case token.GTR:
			return lowerBool(w.strLess(ys, xs))
		case token.LEQ:
			return lowerBool(tNot(w.strLess(ys, xs)))
		case token.GEQ:
			return lowerBool(tNot(w.strLess(xs, ys)))
		}
	}
	if b, ok := t.Underlying().(*types.Basic); ok && b.Info()&types.IsBoolean != 0 {
		a, bb := liftBool(x), liftBool(y)
		switch op {
		case token.EQL:
			return lowerBool(tEq(a, bb))
		case token.NEQ:
			return lowerBool(tNot(tEq(a, bb)))
		case token.AND, token.LAND:
			return lowerBool(tAnd(a, bb))
		case token.OR, token.LOR:
			return lowerBool(tOr(a, bb))
		}
	}
	if xc, ok := x.(complex128); ok {
		yc := y.(complex128)
		switch op {
		case token.ADD:
			return xc + yc
		case token.SUB:
			return xc - yc
		case token.MUL:
			return xc * yc
		case token.QUO:
			return xc / yc
		}
	}
	panic(engineError{fmt.Sprintf("binop %v on %v (%T, %T)", op, t, x, y)})
}

// fpConvCmpConst rewrites a comparison between float64(i) (i an integer
// term, round-to-nearest-even conversion) and a float64 constant c into an
// integer comparison. The conversion is monotone non-decreasing, so
// {i : float64(i) <= c} and {i : float64(i) < c} are down-sets whose largest
// elements are found by bisection with the same rounding (big.Float, RNE).
func fpConvCmpConst(op token.Token, x, y Value) (*Term, bool) {
	conv := func(v Value) (*Term, bool) {
		t, ok := v.(*Term)
		if ok && t.op == "(_ to_fp 11 53)" && len(t.args) == 2 && t.args[1].op == "to_real" {
			return t.args[1].args[0], true
		}
		return nil, false
	}
	i, okx := conv(x)
	c, okc := y.(float64)
	if !okx || !okc {
		i2, oky := conv(y)
		c2, okc2 := x.(float64)
		if !oky || !okc2 {
			return nil, false
		}
		// c2 op i2  ==  i2 op' c2
		i, c = i2, c2
		switch op {
		case token.LSS:
			op = token.GTR
		case token.LEQ:
			op = token.GEQ
		case token.GTR:
			op = token.LSS
		case token.GEQ:
			op = token.LEQ
		}
	}
	switch op {
	case token.EQL, token.NEQ, token.LSS, token.LEQ, token.GTR, token.GEQ:
	default:
		return nil, false
	}
	if math.IsNaN(c) {
		return boolConst(op == token.NEQ), true
	}
	lo := new(big.Int).Neg(pow2(63))
	hi := new(big.Int).Sub(pow2(64), big1)
	if i.lo != nil && i.lo.Cmp(lo) > 0 {
		lo = i.lo
	}
	if i.hi != nil && i.hi.Cmp(hi) < 0 {
		hi = i.hi
	}
	fl := func(v *big.Int) float64 {
		f, _ := new(big.Float).SetInt(v).Float64()
		return f
	}
	// largest v in [lo-1, hi] with pred(v) (pred is a down-set; lo-1 means none)
	maxWith := func(pred func(float64) bool) *big.Int {
		l := new(big.Int).Sub(lo, big1) // invariant: pred holds at l (or l = lo-1)
		h := new(big.Int).Add(hi, big1) // invariant: pred fails at h (or h = hi+1)
		for new(big.Int).Sub(h, l).Cmp(big1) > 0 {
			m := new(big.Int).Add(l, h)
			m.Rsh(m, 1) // floor((l+h)/2) also for negatives (Rsh on big.Int is arithmetic)
			if pred(fl(m)) {
				l = m
			} else {
				h = m
			}
		}
		return l
	}
	kle := intConstBig(maxWith(func(f float64) bool { return f <= c }))
	klt := intConstBig(maxWith(func(f float64) bool { return f < c }))
	switch op {
	case token.LEQ:
		return tLe(i, kle), true
	case token.LSS:
		return tLe(i, klt), true
	case token.GEQ:
		return tGt(i, klt), true
	case token.GTR:
		return tGt(i, kle), true
	case token.EQL:
		return tAnd(tGt(i, klt), tLe(i, kle)), true
	case token.NEQ:
		return tNot(tAnd(tGt(i, klt), tLe(i, kle))), true
	}
	return nil, false
}

// fpConvCmpConv: a comparison between float64(a) and float64(b) for integer
// terms beyond 2^53. Exact reasoning about two roundings is out of reach of
// the back ends; the result is a fresh Bool r constrained by what monotone
// rounding with an error below 2048 (half an ulp under 2^64) implies, e.g.
// for <:  r => a < b,  b - a > 2048 => r. This over-approximates the
// comparison; counterexamples are confirmed natively.
func (w *Worker) fpConvCmpConv(op token.Token, x, y Value) (Value, bool) {
	conv := func(v Value) (*Term, bool) {
		t, ok := v.(*Term)
		if ok && t.op == "(_ to_fp 11 53)" && len(t.args) == 2 && t.args[1].op == "to_real" {
			return t.args[1].args[0], true
		}
		return nil, false
	}
	a, ok1 := conv(x)
	b, ok2 := conv(y)
	if !ok1 || !ok2 {
		return nil, false
	}
	switch op {
	case token.GTR:
		a, b, op = b, a, token.LSS
	case token.GEQ:
		a, b, op = b, a, token.LEQ
	}
	neg := false
	if op == token.NEQ {
		op, neg = token.EQL, true
	}
	if op != token.LSS && op != token.LEQ && op != token.EQL {
		return nil, false
	}
	p := w.path
	a1, a2 := a.hash()
	b1, b2 := b.hash()
	ckey := fmt.Sprintf("cmpconv/%v/%x.%x/%x.%x", op, a1, a2, b1, b2)
	if p.opaque == nil {
		p.opaque = map[string]*Term{}
	}
	if r0, ok := p.opaque[ckey]; ok { // the comparison is a function of its operands
		if neg {
			return lowerBool(tNot(r0)), true
		}
		return lowerBool(r0), true
	}
	r := p.freshBool()
	p.opaque[ckey] = r
	k := intConst(2048)
	implies := func(c, d *Term) *Term { return tOr(tNot(c), d) }
	switch op {
	case token.LSS:
		p.assertTerm(implies(r, tLt(a, b)))
		p.assertTerm(implies(tGt(tSub(b, a), k), r))
	case token.LEQ:
		p.assertTerm(implies(tLe(a, b), r))
		p.assertTerm(implies(r, tLe(tSub(a, b), k)))
	case token.EQL:
		p.assertTerm(implies(tEq(a, b), r))
		p.assertTerm(implies(r, tAnd(tLe(tSub(a, b), k), tLe(tSub(b, a), k))))
	default:
		return nil, false
	}
	w.stub("comparison of float64(a) with float64(b) beyond 2^53: constrained by monotone rounding only (over-approximation)")
	if neg {
		return lowerBool(tNot(r)), true
	}
	return lowerBool(r), true
}

// intToFloat is float64(i) for a symbolic integer. The term keeps the shape
// to_fp(RNE, to_real i) so that comparisons against constants and against
// other conversions are rewritten into integer arithmetic; under
// AbstractFloatArith the conversion is sent to
// the solver as an opaque float64 (one per distinct integer term) tied to i
// only through its sign, because the exact conversion of a 64-bit integer
// makes every query that mentions it take seconds.
func (w *Worker) intToFloat(i *Term) *Term {
	rm := &Term{op: "const", sort: SFP, raw: "RNE", size: 1}
	t := tFP("(_ to_fp 11 53)", SFP, rm, newTerm("to_real", SInt, i))
	if !w.absFloatArith {
		return t
	}
	p := w.path
	h1, h2 := i.hash()
	key := fmt.Sprintf("i2f/%x.%x", h1, h2)
	if p.opaque == nil {
		p.opaque = map[string]*Term{}
	}
	v, ok := p.opaque[key]
	if !ok {
		v = p.freshFP()
		p.opaque[key] = v
		zero := fpConstLit(0)
		p.assertTerm(tOr(tNot(tGe(i, intConst(0))), tFP("fp.geq", SBool, v, zero)))
		p.assertTerm(tOr(tNot(tLe(i, intConst(0))), tFP("fp.leq", SBool, v, zero)))
		p.assertTerm(tNot(tFP("fp.isNaN", SBool, v)))
		p.assertTerm(tNot(tFP("fp.isInfinite", SBool, v)))
		w.stub("float64(i) of a 64-bit symbolic integer: opaque finite float64 with the sign of i (comparisons with constants and other conversions stay exact/monotone)")
	}
	t.alias = v
	return t
}

// fpIntOrigin recognises a float that is the exact conversion of an integer
// (|i| <= 2^53): such conversions are injective and monotone.
func fpIntOrigin(v Value) (*Term, bool) {
	lim := pow2(53)
	switch v := v.(type) {
	case float64:
		if v == math.Trunc(v) && math.Abs(v) <= 9007199254740992 {
			return intConst(int64(v)), true
		}
	case *Term:
		if v.op == "(_ to_fp 11 53)" && len(v.args) == 2 && v.args[1].op == "to_real" {
			i := v.args[1].args[0]
			if i.lo != nil && i.hi != nil && new(big.Int).Abs(i.lo).Cmp(lim) <= 0 && new(big.Int).Abs(i.hi).Cmp(lim) <= 0 {
				return i, true
			}
		}
	}
	return nil, false
}

func numericOperand(t types.Type, x, y Value) (bool, bool) {
	if _, ok := typeIntKind(t); ok {
		return true, true
	}
	if isFloatType(t) {
		return true, true
	}
	return false, false
}

func lowMask(v *big.Int) (uint, bool) {
	if v.Sign() <= 0 {
		return 0, false
	}
	p := new(big.Int).Add(v, big1)
	if p.BitLen() > 0 && new(big.Int).And(p, v).Sign() == 0 {
		return uint(p.BitLen() - 1), true
	}
	return 0, false
}

func (fr *frame) binopConcInt(op token.Token, k intKind, x, y int64, pos token.Pos) Value {
	u := !k.signed && k.bits == 64
	switch op {
	case token.ADD:
		return wrapConc(x+y, k)
	case token.SUB:
		return wrapConc(x-y, k)
	case token.MUL:
		return wrapConc(x*y, k)
	case token.QUO:
		if y == 0 {
			fr.goPanic("integer divide by zero", pos)
		}
		if u {
			return int64(uint64(x) / uint64(y))
		}
		if y == -1 {
			return wrapConc(-x, k)
		}
		return wrapConc(x/y, k)
	case token.REM:
		if y == 0 {
			fr.goPanic("integer divide by zero", pos)
		}
		if u {
			return int64(uint64(x) % uint64(y))
		}
		if y == -1 {
			return int64(0)
		}
		return wrapConc(x%y, k)
	case token.AND:
		return x & y
	case token.OR:
		return x | y
	case token.XOR:
		return wrapConc(x^y, k)
	case token.AND_NOT:
		return x &^ y
	}
	var c int
	if u {
		switch {
		case uint64(x) < uint64(y):
			c = -1
		case uint64(x) > uint64(y):
			c = 1
		}
	} else {
		switch {
		case x < y:
			c = -1
		case x > y:
			c = 1
		}
	}
	return cmpOpInt(op, c)
}

func (fr *frame) shift(op token.Token, k intKind, x, y Value, pos token.Pos) Value {
	w := fr.w
	// the count's own type may be signed: negative counts panic
	var cnt int64
	switch y := y.(type) {
	case int64:
		cnt = y
	case *Term:
		if y.lo == nil || y.lo.Sign() < 0 {
			if !w.path.Branch(tGe(y, intConst(0))) {
				fr.goPanic("negative shift amount", pos)
			}
		}
		// clamp: counts >= 64 all behave alike
		if !w.path.Branch(tLt(y, intConst(64))) {
			cnt = 64
		} else {
			cnt = w.path.Concretize(y)
		}
	}
	if cnt < 0 {
		fr.goPanic("negative shift amount", pos)
	}
	switch x := x.(type) {
	case int64:
		if op == token.SHL {
			if cnt >= 64 {
				return int64(0)
			}
			return wrapConc(int64(uint64(x)<<uint(cnt)), k)
		}
		if k.signed {
			if cnt >= 64 {
				cnt = 63
			}
			return x >> uint(cnt)
		}
		if cnt >= 64 {
			return int64(0)
		}
		return wrapConc(int64(uint64(x)>>uint(cnt)), k)
	case *Term:
		if cnt > 200 {
			cnt = 200
		}
		p := intConstBig(pow2(uint(cnt)))
		if op == token.SHL {
			return lowerInt(tWrap(tMul(x, p), k.bits, k.signed), k)
		}
		return lowerInt(tDivE(x, p), k)
	}
	panic(engineError{"shift"})
}

// ---- conversions ----

func (fr *frame) conv(tDst, tSrc types.Type, x Value, pos token.Pos) Value {
	w := fr.w
	ud, us := tDst.Underlying(), tSrc.Underlying()
	switch us := us.(type) {
	case *types.Pointer:
		// *T -> unsafe.Pointer or *T -> *U
		return x
	case *types.Slice:
		// []byte/[]rune -> string
		s := x.(Slice)
		eb := us.Elem().Underlying().(*types.Basic)
		if _, ok := ud.(*types.Slice); ok {
			return x
		}
		if eb.Kind() == types.Uint8 {
			nb := make([]Value, len(s.v))
			copy(nb, s.v)
			return Str{b: nb}
		}
		// []rune -> string
		var out []Value
		for _, r := range s.v {
			out = append(out, w.encodeRune(fr, r)...)
		}
		return Str{b: out}
	case *types.Basic:
		if us.Kind() == types.UnsafePointer {
			return x
		}
		if us.Info()&types.IsString != 0 {
			xs := w.cells(x.(Str))
			switch ud := ud.(type) {
			case *types.Slice:
				eb := ud.Elem().Underlying().(*types.Basic)
				if eb.Kind() == types.Uint8 {
					nb := make([]Value, len(xs.b))
					copy(nb, xs.b)
					return Slice{v: nb, nonNil: true}
				}
				// string -> []rune
				var out []Value
				for i := 0; i < len(xs.b); {
					r, n := w.decodeRune(fr, xs.b[i:])
					out = append(out, r)
					i += n
				}
				if out == nil {
					out = []Value{}
				}
				return Slice{v: out, nonNil: true}
			case *types.Basic:
				if ud.Info()&types.IsString != 0 {
					return x
				}
			}
		}
		if ks, ok := basicIntKind(us); ok {
			switch ud := ud.(type) {
			case *types.Basic:
				if ud.Kind() == types.UnsafePointer {
					return x
				}
				if kd, ok := basicIntKind(ud); ok {
					switch v := x.(type) {
					case int64:
						return wrapConc(v, kd)
					case *Term:
						return lowerInt(tWrap(v, kd.bits, kd.signed), kd)
					}
				}
				if ud.Info()&types.IsFloat != 0 {
					switch v := x.(type) {
					case int64:
						var f float64
						if !ks.signed && ks.bits == 64 {
							f = float64(uint64(v))
						} else {
							f = float64(v)
						}
						if ud.Kind() == types.Float32 {
							f = float64(float32(f))
						}
						return f
					case *Term:
						rm := &Term{op: "const", sort: SFP, raw: "RNE", size: 1}
						_ = rm
						return w.intToFloat(v)
					}
				}
				if ud.Info()&types.IsString != 0 {
					// string(rune)
					return Str{b: w.encodeRune(fr, x)}
				}
			}
		}
		if us.Info()&types.IsFloat != 0 {
			if bd, ok := ud.(*types.Basic); ok {
				if bd.Info()&types.IsFloat != 0 {
					if f, ok := x.(float64); ok {
						if bd.Kind() == types.Float32 {
							return float64(float32(f))
						}
						return f
					}
					if bd.Kind() == types.Float64 {
						return x
					}
				}
				if kd, ok := basicIntKind(bd); ok {
					switch f := x.(type) {
					case float64:
						return convFloatToInt(f, kd)
					case *Term:
						return w.symFloatToInt(f, kd)
					}
				}
			}
		}
		if us.Info()&types.IsComplex != 0 {
			return x
		}
	case *types.Signature, *types.Map, *types.Chan, *types.Struct, *types.Array, *types.Interface:
		return x
	}
	panic(engineError{fmt.Sprintf("unsupported conversion %v -> %v (%T)", tSrc, tDst, x)})
}

func convFloatToInt(f float64, k intKind) Value {
	// Go (amd64) semantics for in-range values; out-of-range is implementation-defined:
	// mimic amd64 CVTTSD2SQ (0x8000000000000000 on overflow/NaN).
	if k.signed || k.bits < 64 {
		var v int64
		if math.IsNaN(f) || f >= 9.223372036854775808e18 || f < -9.223372036854775808e18 {
			v = math.MinInt64
		} else {
			v = int64(f)
		}
		return wrapConc(v, k)
	}
	return int64(uint64(f))
}

// symFloatToInt: truncation toward zero for values representable in int64;
// outside that range amd64 yields MinInt64.
func (w *Worker) symFloatToInt(f *Term, k intKind) Value {
	if i, ok := fpIntOrigin(f); ok {
		// exact conversion of an integer of magnitude <= 2^53: the round trip is the identity
		return lowerInt(tWrap(i, k.bits, k.signed), k)
	}
	if f.op == "(_ to_fp 11 53)" && len(f.args) == 2 && f.args[1].op == "to_real" {
		// float64(i) for an integer beyond 2^53: in range iff below 2^63 after rounding; the
		// value is i rounded to 53 significant bits: |result - i| <= 1024 (half an ulp below 2^64)
		i := f.args[1].args[0]
		lt, _ := fpConvCmpConst(token.LSS, f, 9.223372036854775808e18)
		ge, _ := fpConvCmpConst(token.GEQ, f, -9.223372036854775808e18)
		if !w.path.Branch(tAnd(lt, ge)) {
			return wrapConc(math.MinInt64, k)
		}
		// |i| <= 2^53: the conversion is exact, the round trip is the identity
		lim53 := new(big.Int).Set(pow2(53))
		small := tAnd(tLe(i, intConstBig(lim53)), tGe(i, intConstBig(new(big.Int).Neg(lim53))))
		if w.path.Branch(small) {
			return lowerInt(tWrap(i, k.bits, k.signed), k)
		}
		w.stub("int64(float64(i)) for |i| > 2^53: any value within 1024 of i (over-approximation of the rounding)")
		h1, h2 := i.hash()
		rkey := fmt.Sprintf("f2i/%x.%x", h1, h2)
		if w.path.opaque == nil {
			w.path.opaque = map[string]*Term{}
		}
		r, seen := w.path.opaque[rkey]
		if !seen {
			r = w.path.freshInt(64, true)
			w.path.opaque[rkey] = r
			w.path.assertTerm(tAnd(tLe(tSub(r, i), intConst(1024)), tLe(tSub(i, r), intConst(1024))))
		}
		return lowerInt(tWrap(r, k.bits, k.signed), k)
	}
	rtz := &Term{op: "const", sort: SFP, raw: "RTZ", size: 1}
	inRange := tAnd(tFP("fp.lt", SBool, f, fpConstLit(9.223372036854775808e18)), tFP("fp.geq", SBool, f, fpConstLit(-9.223372036854775808e18)))
	inRange = tAnd(inRange, tNot(tFP("fp.isNaN", SBool, f)))
	if !w.path.Branch(inRange) {
		return wrapConc(math.MinInt64, k)
	}
	r := tFP("fp.roundToIntegral", SFP, rtz, f)
	iv := newTerm("to_int", SInt, newTerm("fp.to_real", SInt, r))
	iv.lo = new(big.Int).Neg(pow2(63))
	iv.hi = new(big.Int).Sub(pow2(63), big1)
	return lowerInt(tWrap(iv, k.bits, k.signed), k)
}

// ---- UTF-8 over symbolic bytes ----

// decodeRune decodes the first rune of b following utf8.DecodeRune exactly,
// branching on symbolic bytes.
func (w *Worker) decodeRune(fr *frame, b []Value) (Value, int) {
	if len(b) == 0 {
		return int64(utf8.RuneError), 0
	}
	conc := true
	n := len(b)
	if n > 4 {
		n = 4
	}
	var buf [4]byte
	for i := 0; i < n; i++ {
		v, ok := b[i].(int64)
		if !ok {
			conc = false
			break
		}
		buf[i] = byte(v)
		if i == 0 && v < utf8.RuneSelf {
			return v, 1
		}
	}
	if conc {
		r, sz := utf8.DecodeRune(buf[:n])
		return int64(r), sz
	}
	p := w.path
	bk := intKind{8, false}
	b0 := liftInt(b[0], bk)
	if p.Branch(tLt(b0, intConst(0x80))) {
		return lowerInt(b0, bk), 1
	}
	bad := func() (Value, int) { return int64(utf8.RuneError), 1 }
	in := func(t *Term, lo, hi int64) *Term { return tAnd(tGe(t, intConst(lo)), tLe(t, intConst(hi))) }
	// classify the lead byte as utf8.first does
	if p.Branch(in(b0, 0xC2, 0xDF)) {
		if len(b) < 2 {
			return bad()
		}
		b1 := liftInt(b[1], bk)
		if !p.Branch(in(b1, 0x80, 0xBF)) {
			return bad()
		}
		r := tAdd(tMul(tSub(b0, intConst(0xC0)), intConst(64)), tSub(b1, intConst(0x80)))
		return lowerIntAny(r), 2
	}
	if p.Branch(in(b0, 0xE0, 0xEF)) {
		if len(b) < 3 {
			return bad()
		}
		b1 := liftInt(b[1], bk)
		b2 := liftInt(b[2], bk)
		lo1 := tIte(tEq(b0, intConst(0xE0)), intConst(0xA0), intConst(0x80))
		hi1 := tIte(tEq(b0, intConst(0xED)), intConst(0x9F), intConst(0xBF))
		if !p.Branch(tAnd(tGe(b1, lo1), tLe(b1, hi1))) {
			return bad()
		}
		if !p.Branch(in(b2, 0x80, 0xBF)) {
			return bad()
		}
		r := tAdd(tAdd(tMul(tSub(b0, intConst(0xE0)), intConst(4096)), tMul(tSub(b1, intConst(0x80)), intConst(64))), tSub(b2, intConst(0x80)))
		return lowerIntAny(r), 3
	}
	if p.Branch(in(b0, 0xF0, 0xF4)) {
		if len(b) < 4 {
			return bad()
		}
		b1 := liftInt(b[1], bk)
		b2 := liftInt(b[2], bk)
		b3 := liftInt(b[3], bk)
		lo1 := tIte(tEq(b0, intConst(0xF0)), intConst(0x90), intConst(0x80))
		hi1 := tIte(tEq(b0, intConst(0xF4)), intConst(0x8F), intConst(0xBF))
		if !p.Branch(tAnd(tGe(b1, lo1), tLe(b1, hi1))) {
			return bad()
		}
		if !p.Branch(in(b2, 0x80, 0xBF)) {
			return bad()
		}
		if !p.Branch(in(b3, 0x80, 0xBF)) {
			return bad()
		}
		r := tAdd(tAdd(tAdd(tMul(tSub(b0, intConst(0xF0)), intConst(262144)), tMul(tSub(b1, intConst(0x80)), intConst(4096))), tMul(tSub(b2, intConst(0x80)), intConst(64))), tSub(b3, intConst(0x80)))
		return lowerIntAny(r), 4
	}
	return bad()
}

// encodeRune follows utf8.AppendRune.
func (w *Worker) encodeRune(fr *frame, r Value) []Value {
	switch r := r.(type) {
	case int64:
		var buf [4]byte
		rr := rune(r)
		if r < 0 || r > utf8.MaxRune {
			rr = utf8.RuneError
		}
		n := utf8.EncodeRune(buf[:], rr)
		out := make([]Value, n)
		for i := 0; i < n; i++ {
			out[i] = byteVals[buf[i]]
		}
		return out
	case *Term:
		p := w.path
		if p.Branch(tAnd(tGe(r, intConst(0)), tLt(r, intConst(0x80)))) {
			return []Value{lowerIntAny(r)}
		}
		if p.Branch(tAnd(tGe(r, intConst(0x80)), tLt(r, intConst(0x800)))) {
			return []Value{lowerIntAny(tAdd(intConst(0xC0), tDivE(r, intConst(64)))), lowerIntAny(tAdd(intConst(0x80), tModE(r, intConst(64))))}
		}
		bad := tOr(tOr(tLt(r, intConst(0)), tGt(r, intConst(utf8.MaxRune))), tAnd(tGe(r, intConst(0xD800)), tLe(r, intConst(0xDFFF))))
		if p.Branch(bad) {
			return []Value{int64(0xEF), int64(0xBF), int64(0xBD)}
		}
		if p.Branch(tLt(r, intConst(0x10000))) {
			return []Value{lowerIntAny(tAdd(intConst(0xE0), tDivE(r, intConst(4096)))),
				lowerIntAny(tAdd(intConst(0x80), tModE(tDivE(r, intConst(64)), intConst(64)))),
				lowerIntAny(tAdd(intConst(0x80), tModE(r, intConst(64))))}
		}
		return []Value{lowerIntAny(tAdd(intConst(0xF0), tDivE(r, intConst(262144)))),
			lowerIntAny(tAdd(intConst(0x80), tModE(tDivE(r, intConst(4096)), intConst(64)))),
			lowerIntAny(tAdd(intConst(0x80), tModE(tDivE(r, intConst(64)), intConst(64)))),
			lowerIntAny(tAdd(intConst(0x80), tModE(r, intConst(64))))}
	}
	panic(engineError{"encodeRune"})
}

// ---- maps ----

func (w *Worker) mapFind(m *Map, key Value) *mapEntry {
	if m == nil {
		return nil
	}
	ck, conc := canonKey(key)
	if conc {
		if i, ok := m.index[ck]; ok {
			return m.entries[i]
		}
	}
	// compare symbolically with entries whose keys are not concrete (or all, if key symbolic)
	for _, e := range m.entries {
		if e.deleted {
			continue
		}
		if conc {
			if _, ec := canonKey(e.k); ec {
				continue // both concrete and different
			}
		}
		eq := w.eqVal(key, e.k)
		if w.path.Branch(eq) {
			return e
		}
	}
	return nil
}

func (w *Worker) mapInsert(m *Map, key, val Value) {
	if e := w.mapFind(m, key); e != nil {
		old := e.v
		e.v = val
		if w.logging {
			w.mapUndo = append(w.mapUndo, func() { e.v = old })
		}
		return
	}
	e := &mapEntry{k: key, v: val}
	m.entries = append(m.entries, e)
	m.n++
	ck, conc := canonKey(key)
	if conc {
		m.index[ck] = len(m.entries) - 1
	}
	if w.logging {
		w.mapUndo = append(w.mapUndo, func() {
			m.entries = m.entries[:len(m.entries)-1]
			m.n--
			if conc {
				delete(m.index, ck)
			}
		})
	}
}

func (w *Worker) mapDelete(m *Map, key Value) {
	if m == nil {
		return
	}
	e := w.mapFind(m, key)
	if e == nil {
		return
	}
	e.deleted = true
	m.n--
	ck, conc := canonKey(e.k)
	var oldIdx int
	if conc {
		oldIdx = m.index[ck]
		delete(m.index, ck)
	}
	if w.logging {
		w.mapUndo = append(w.mapUndo, func() {
			e.deleted = false
			m.n++
			if conc {
				m.index[ck] = oldIdx
			}
		})
	}
}

func (fr *frame) lookup(instr *ssa.Lookup) Value {
	w := fr.w
	x := fr.get(instr.X)
	idx := fr.get(instr.Index)
	switch x := x.(type) {
	case Str:
		cells := w.cells(x).b
		switch i := idx.(type) {
		case int64:
			if i < 0 || i >= int64(len(cells)) {
				fr.goPanic(fmt.Sprintf("index out of range [%d] with length %d", i, len(cells)), instr.Pos())
			}
			return cells[i]
		case *Term:
			fr.boundsBranch(i, len(cells), instr.Pos(), "string index")
			return fr.load(nil, &SymPtr{cells: cells, idx: i}, instr.Pos())
		}
	case *Map:
		e := w.mapFind(x, idx)
		var v Value
		if e != nil {
			v = copyVal(e.v)
		} else {
			v = zero(instr.X.Type().Underlying().(*types.Map).Elem())
		}
		if instr.CommaOk {
			return Tuple{v, e != nil}
		}
		return v
	}
	panic(engineError{fmt.Sprintf("lookup on %T", x)})
}

// ---- iterators ----

type iterator interface {
	next(fr *frame) Value
}

type strIter struct {
	s   Str
	pos int
}

func (it *strIter) next(fr *frame) Value {
	if it.pos >= len(it.s.b) {
		return Tuple{false, int64(0), int64(0)}
	}
	r, n := fr.w.decodeRune(fr, it.s.b[it.pos:])
	at := it.pos
	it.pos += n
	return Tuple{true, int64(at), r}
}

type mapIter struct {
	m     *Map
	order []*mapEntry
	pos   int
}

func (it *mapIter) next(fr *frame) Value {
	for it.pos < len(it.order) {
		e := it.order[it.pos]
		it.pos++
		if e.deleted {
			continue
		}
		return Tuple{true, e.k, copyVal(e.v)}
	}
	return Tuple{false, nil, nil}
}

func (w *Worker) rangeIter(fr *frame, x Value, t types.Type) iterator {
	switch x := x.(type) {
	case Str:
		return &strIter{s: w.cells(x)}
	case *Map:
		it := &mapIter{m: x}
		if x != nil {
			for _, e := range x.entries {
				if !e.deleted {
					it.order = append(it.order, e)
				}
			}
			w.permuteMapOrder(it)
		}
		return it
	}
	panic(engineError{fmt.Sprintf("range over %T", x)})
}

// appendVals implements append; growth doubles the capacity (no size-class
// rounding), which is one admissible behaviour of the Go runtime.
func (w *Worker) appendVals(s Slice, add []Value, z Value) Slice {
	n := len(s.v)
	if n+len(add) <= cap(s.v) {
		ns := s.v[:n+len(add)]
		for i, v := range add {
			w.store(&ns[n+i], copyVal(v))
		}
		return Slice{v: ns, nonNil: true}
	}
	nc := 2 * cap(s.v)
	if nc < n+len(add) {
		nc = n + len(add)
	}
	nb := make([]Value, n+len(add), nc)
	for i := 0; i < n; i++ {
		nb[i] = copyVal(s.v[i])
	}
	for i, v := range add {
		nb[n+i] = copyVal(v)
	}
	full := nb[:nc]
	for i := n + len(add); i < nc; i++ {
		full[i] = copyVal(z)
	}
	return Slice{v: nb, nonNil: true}
}

// ---- builtins ----

func (w *Worker) callBuiltin(caller *frame, pos token.Pos, fn *ssa.Builtin, args []Value) Value {
	switch fn.Name() {
	case "append":
		if len(args) == 1 {
			return args[0]
		}
		s := args[0].(Slice)
		var add []Value
		switch a := args[1].(type) {
		case Str:
			add = w.cells(a).b
		case Slice:
			add = a.v
		}
		if len(add) == 0 {
			return s
		}
		var z Value
		if st, ok := fn.Type().(*types.Signature); ok && st.Results().Len() == 1 {
			if sl, ok := st.Results().At(0).Type().Underlying().(*types.Slice); ok {
				z = zero(sl.Elem())
			}
		}
		return w.appendVals(s, add, z)
	case "copy":
		dst := args[0].(Slice)
		var src []Value
		switch a := args[1].(type) {
		case Str:
			src = w.cells(a).b
		case Slice:
			src = a.v
		}
		n := len(dst.v)
		if len(src) < n {
			n = len(src)
		}
		// memmove semantics
		tmp := make([]Value, n)
		copy(tmp, src[:n])
		for i := 0; i < n; i++ {
			w.store(&dst.v[i], copyVal(tmp[i]))
		}
		return int64(n)
	case "len":
		switch x := args[0].(type) {
		case Str:
			return w.strLen(x)
		case Slice:
			return int64(len(x.v))
		case Array:
			return int64(len(x))
		case *Value:
			return int64(len((*x).(Array)))
		case *Map:
			if x == nil {
				return int64(0)
			}
			return int64(x.n)
		case *Chan:
			if x == nil {
				return int64(0)
			}
			return int64(len(x.buf))
		}
	case "cap":
		switch x := args[0].(type) {
		case Slice:
			return int64(cap(x.v))
		case Array:
			return int64(len(x))
		case *Value:
			return int64(len((*x).(Array)))
		case *Chan:
			if x == nil {
				return int64(0)
			}
			return int64(x.cap)
		}
	case "delete":
		w.mapDelete(args[0].(*Map), args[1])
		return nil
	case "clear":
		switch x := args[0].(type) {
		case *Map:
			if x != nil {
				for _, e := range x.entries {
					if !e.deleted {
						w.mapDelete(x, e.k)
					}
				}
			}
		case Slice:
			for i := range x.v {
				w.store(&x.v[i], zeroLike(x.v[i]))
			}
		}
		return nil
	case "print", "println":
		return nil
	case "recover":
		return doRecover(caller)
	case "close":
		w.chanClose(caller, args[0].(*Chan), pos)
		return nil
	case "min", "max":
		sig := fn.Type().(*types.Signature)
		t := sig.Params().At(0).Type()
		r := args[0]
		for _, a := range args[1:] {
			op := token.LSS
			if fn.Name() == "max" {
				op = token.GTR
			}
			c := caller.binop(op, t, a, r, pos)
			switch c := c.(type) {
			case bool:
				if c {
					r = a
				}
			case *Term:
				if w.path.Branch(c) {
					r = a
				}
			}
		}
		return r
	case "ssa:wrapnilchk":
		recv := args[0]
		if p, ok := recv.(*Value); ok && p == nil {
			caller.goPanic("value method called using nil pointer", pos)
		}
		return recv
	case "String": // unsafe.String(ptr, len)
		panic(engineError{"unsafe.String"})
	}
	panic(engineError{fmt.Sprintf("builtin %s on %T", fn.Name(), args)})
}

func zeroLike(v Value) Value {
	switch v := v.(type) {
	case int64, *Term:
		if t, ok := v.(*Term); ok {
			switch t.sort {
			case SBool:
				return false
			case SFP:
				return float64(0)
			}
		}
		return int64(0)
	case bool:
		return false
	case float64:
		return float64(0)
	case Str:
		return Str{}
	case Slice:
		return Slice{}
	case *Value:
		return (*Value)(nil)
	case Iface:
		return Iface{}
	case *Map:
		return (*Map)(nil)
	case Struct:
		n := make(Struct, len(v))
		for i := range v {
			n[i] = zeroLike(v[i])
		}
		return n
	case Array:
		n := make(Array, len(v))
		for i := range v {
			n[i] = zeroLike(v[i])
		}
		return n
	}
	return nil
}

func doRecover(caller *frame) Value {
	if caller != nil && !caller.panicking && caller.caller != nil && caller.caller.panicking {
		caller.caller.panicking = false
		p := caller.caller.panicVal
		caller.caller.panicVal = nil
		if tp, ok := p.(targetPanic); ok {
			if iv, ok := tp.v.(Iface); ok {
				return iv
			}
			return Iface{t: types.Typ[types.String], v: tp.v}
		}
		panic(p)
	}
	return Iface{}
}
