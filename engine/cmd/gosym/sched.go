package main

// Tier B: interleavings as symbolic choices.
//
// With zz.Concurrent(level) a harness switches the worker from "go
// statements run to completion" to cooperative scheduling: every target
// goroutine is a host goroutine, exactly one of them runs at a time, and at
// every *visible* operation (channel send/receive/close, select, mutex lock,
// WaitGroup.Wait, goroutine start and end; with level 2 also sync/atomic
// operations) the next goroutine to run is a nondeterministic choice among
// the enabled ones - a fork of the path like any zz.Choice. Unbuffered
// channels rendezvous (a sender proceeds only when a receiver is waiting),
// buffered channels block when full, a blocked set with nobody enabled is a
// deadlock. Switching away from a goroutine that could itself continue is a
// preemption; at most `preempt` of them per path (context bound).
// time.After fires (its channel is readable) for the first `timers` calls of
// a path and never for later ones.

import (
	"fmt"
	"go/token"
	"go/types"

	"golang.org/x/tools/go/ssa"
)

type gor struct {
	id      int
	wake    chan struct{}
	started bool
	exited  bool
	done    bool
	can     func() bool
	what    string
}

type killG struct{}

type schedState struct {
	gs       []*gor
	cur      *gor
	pending  interface{}
	killing  bool
	ack      chan struct{}
	level    int
	preempt  int
	timers   int
	locked   map[*Value]bool
	wg       map[*Value]int64
	switches int
	race     *raceState
}

func (w *Worker) schedStart(level, preempt, timers int) {
	w.usedSched = true
	g0 := &gor{id: 0, wake: make(chan struct{}), started: true}
	w.sched = &schedState{gs: []*gor{g0}, cur: g0, ack: make(chan struct{}), level: level, preempt: preempt, timers: timers,
		locked: map[*Value]bool{}, wg: map[*Value]int64{}}
}

// schedTeardown unwinds every host goroutine of the path.
func (w *Worker) schedTeardown() {
	s := w.sched
	if s == nil {
		return
	}
	s.killing = true
	for _, g := range s.gs[1:] {
		if !g.exited {
			if !g.started {
				g.exited = true
				continue
			}
			g.wake <- struct{}{}
			<-s.ack
		}
	}
	w.sched = nil
}

func (s *schedState) enabled(except *gor) []*gor {
	var out []*gor
	for _, g := range s.gs {
		if g.done || g == except {
			continue
		}
		if g.can == nil || g.can() {
			out = append(out, g)
		}
	}
	return out
}

// yieldPoint: the current goroutine is about to perform a visible operation
// that it can perform iff can() (nil: always).
func (w *Worker) yieldPoint(can func() bool, what string) {
	s := w.sched
	self := s.cur
	self.can, self.what = can, what
	en := s.enabled(nil)
	if len(en) == 0 {
		panic(targetPanic{v: Iface{t: w.rtErrType, v: mkStr("all goroutines are asleep - deadlock! (blocked in " + what + ")")}, where: "scheduler"})
	}
	selfOK := can == nil || can()
	var next *gor
	if selfOK && s.preempt <= 0 {
		next = self
	} else if len(en) == 1 {
		next = en[0]
	} else {
		next = en[w.path.Choice(len(en))]
	}
	if next == self {
		self.can = nil
		return
	}
	if selfOK {
		s.preempt--
	}
	s.switches++
	w.transfer(self, next)
	self.can = nil
}

func (w *Worker) transfer(self, next *gor) {
	s := w.sched
	s.cur = next
	w.startHost(next)
	next.wake <- struct{}{}
	<-self.wake
	if s.killing {
		panic(killG{})
	}
	if self.id == 0 && s.pending != nil {
		p := s.pending
		s.pending = nil
		panic(p)
	}
}

func (w *Worker) startHost(g *gor) {}

func protect(f func()) (r interface{}) {
	defer func() { r = recover() }()
	f()
	return nil
}

func (w *Worker) goStmtSched(fr *frame, instr *ssa.Go, fn Value, args []Value) {
	s := w.sched
	g := &gor{id: len(s.gs), wake: make(chan struct{})}
	s.gs = append(s.gs, g)
	g.started = true
	w.raceFork(g.id)
	go func() {
		<-g.wake
		if s.killing {
			g.exited = true
			s.ack <- struct{}{}
			return
		}
		r := protect(func() { w.call(nil, instr.Pos(), fn, args) })
		g.done = true
		if _, killed := r.(killG); killed || s.killing {
			g.exited = true
			s.ack <- struct{}{}
			return
		}
		var next *gor
		if r == nil {
			r = protect(func() {
				en := s.enabled(g)
				switch len(en) {
				case 0:
					panic(targetPanic{v: Iface{t: w.rtErrType, v: mkStr("all goroutines are asleep - deadlock! (after a goroutine ended)")}, where: "scheduler"})
				case 1:
					next = en[0]
				default:
					next = en[w.path.Choice(len(en))]
				}
			})
		}
		if r != nil {
			s.pending = r
			next = s.gs[0]
		}
		g.exited = true
		s.cur = next
		next.wake <- struct{}{}
	}()
	// starting a goroutine is a visible operation: the new goroutine may run first
	w.yieldPoint(nil, "go")
}

func (w *Worker) chanSendSched(fr *frame, c *Chan, v Value, pos token.Pos) {
	if c == nil {
		w.yieldPoint(func() bool { return false }, "send on nil channel")
	}
	can := func() bool {
		return c.closed || (c.cap > 0 && len(c.buf) < c.cap) || (c.cap == 0 && len(c.buf) == 0)
	}
	w.yieldPoint(can, "chan send")
	if c.closed {
		panic(targetPanic{v: Iface{t: w.rtErrType, v: mkStr("send on closed channel")}, where: fr.where(pos)})
	}
	old := c.buf
	c.buf = append(c.buf[:len(c.buf):len(c.buf)], copyVal(v))
	if w.logging {
		w.mapUndo = append(w.mapUndo, func() { c.buf = old })
	}
	if w.sched.raceOn() {
		r := w.sched.race
		g := w.sched.cur.id
		// capacity edge: the k-th receive happens before the (k+cap)-th send completes
		if c.cap > 0 && c.sent >= c.cap && c.sent-c.cap < len(c.recvVCs) {
			r.vc[g] = joinVC(r.clockOf(g), c.recvVCs[c.sent-c.cap])
		}
		c.sent++
		c.vcs = append(c.vcs, r.clockOf(g).copyOf())
		r.tick(g)
	}
	if c.cap == 0 {
		// rendezvous: the send completes only when a receiver has taken the value
		t0 := c.taken
		w.yieldPoint(func() bool { return c.taken > t0 }, "chan send (waiting for the receiver)")
		w.raceAcquire(chanTaker{c})
	}
}

func (w *Worker) chanRecvSched(fr *frame, c *Chan, commaOk bool, t types.Type, pos token.Pos) Value {
	if c == nil {
		w.yieldPoint(func() bool { return false }, "receive from nil channel")
	}
	c.recvWaiting++
	w.yieldPoint(func() bool { return len(c.buf) > 0 || c.closed }, "chan receive")
	c.recvWaiting--
	var elem types.Type
	if commaOk {
		elem = t.(*types.Tuple).At(0).Type()
	} else {
		elem = t
	}
	if len(c.buf) == 0 {
		w.raceAcquire(chanClose{c})
		if commaOk {
			return Tuple{zero(elem), false}
		}
		return zero(elem)
	}
	old := c.buf
	v := c.buf[0]
	c.buf = c.buf[1:]
	c.taken++
	w.raceRecvEdge(c)
	if w.logging {
		w.mapUndo = append(w.mapUndo, func() { c.buf = old })
	}
	if commaOk {
		return Tuple{v, true}
	}
	return v
}

func (w *Worker) selectSched(fr *frame, instr *ssa.Select) Value {
	chans := make([]*Chan, len(instr.States))
	for i, st := range instr.States {
		chans[i], _ = fr.get(st.Chan).(*Chan)
	}
	ready := func() []int {
		var out []int
		for i, st := range instr.States {
			c := chans[i]
			if c == nil {
				continue
			}
			if st.Dir == types.RecvOnly {
				if len(c.buf) > 0 || c.closed {
					out = append(out, i)
				}
			} else if c.closed || (c.cap > 0 && len(c.buf) < c.cap) || (c.cap == 0 && c.recvWaiting > 0 && len(c.buf) == 0) {
				out = append(out, i)
			}
		}
		return out
	}
	for i, st := range instr.States {
		if st.Dir == types.RecvOnly && chans[i] != nil {
			chans[i].recvWaiting++
		}
	}
	w.yieldPoint(func() bool { return !instr.Blocking || len(ready()) > 0 }, "select")
	for i, st := range instr.States {
		if st.Dir == types.RecvOnly && chans[i] != nil {
			chans[i].recvWaiting--
		}
	}
	en := ready()
	chosen := -1
	if len(en) == 1 {
		chosen = en[0]
	} else if len(en) > 1 {
		chosen = en[w.path.Choice(len(en))]
	}
	r := Tuple{int64(chosen), false}
	for i, st := range instr.States {
		if st.Dir == types.RecvOnly {
			elem := st.Chan.Type().Underlying().(*types.Chan).Elem()
			if i == chosen {
				c := chans[i]
				if len(c.buf) > 0 {
					old := c.buf
					v := c.buf[0]
					c.buf = c.buf[1:]
					c.taken++
					w.raceRecvEdge(c)
					if w.logging {
						w.mapUndo = append(w.mapUndo, func() { c.buf = old })
					}
					r[1] = true
					r = append(r, v)
				} else {
					w.raceAcquire(chanClose{c})
					r = append(r, zero(elem))
				}
			} else {
				r = append(r, zero(elem))
			}
		} else if i == chosen {
			c := chans[i]
			if c.closed {
				panic(targetPanic{v: Iface{t: w.rtErrType, v: mkStr("send on closed channel")}, where: fr.where(instr.Pos())})
			}
			old := c.buf
			c.buf = append(c.buf[:len(c.buf):len(c.buf)], copyVal(fr.get(st.Send)))
			if w.logging {
				w.mapUndo = append(w.mapUndo, func() { c.buf = old })
			}
		}
	}
	return r
}

func (w *Worker) syncOpSched(fr *frame, name string, a []Value) Value {
	s := w.sched
	p, _ := a[0].(*Value)
	switch name {
	case "(*sync.Mutex).Lock", "(*sync.RWMutex).Lock", "(*sync.RWMutex).RLock":
		w.yieldPoint(func() bool { return !s.locked[p] }, "lock")
		s.locked[p] = true
		w.raceAcquire(p)
	case "(*sync.Mutex).Unlock", "(*sync.RWMutex).Unlock", "(*sync.RWMutex).RUnlock":
		if !s.locked[p] {
			panic(targetPanic{v: Iface{t: w.rtErrType, v: mkStr("sync: unlock of unlocked mutex")}, where: fr.fn.String()})
		}
		s.locked[p] = false
		w.raceRelease(p, false)
	case "wg.Add":
		s.wg[p] += w.concInt(a[1])
	case "wg.Done":
		s.wg[p]--
		w.raceRelease(p, true)
		if s.wg[p] < 0 {
			panic(targetPanic{v: Iface{t: w.rtErrType, v: mkStr("sync: negative WaitGroup counter")}, where: fr.fn.String()})
		}
	case "wg.Wait":
		w.yieldPoint(func() bool { return s.wg[p] == 0 }, "wg.Wait")
		w.raceAcquire(p)
	default:
		panic(engineError{"sync operation without a model: " + name})
	}
	return nil
}

var _ = fmt.Sprint

type chanTaker struct{ c *Chan }
type chanClose struct{ c *Chan }

// raceRecvEdge: the receiver learns what the sender knew; the sender of an
// unbuffered channel learns what the receiver knew when it took the value.
func (w *Worker) raceRecvEdge(c *Chan) {
	if !w.sched.raceOn() {
		return
	}
	r := w.sched.race
	g := w.sched.cur.id
	if len(c.vcs) > 0 {
		r.vc[g] = joinVC(r.clockOf(g), c.vcs[0])
		c.vcs = c.vcs[1:]
	}
	if c.cap == 0 {
		r.sync[chanTaker{c}] = r.clockOf(g).copyOf()
		r.tick(g)
	} else {
		c.recvVCs = append(c.recvVCs, r.clockOf(g).copyOf())
		r.tick(g)
	}
}
