package main

// unicode.* on symbolic runes: the real package's answers are tabulated
// natively (from the real unicode package, at run time) into maximal
// segments of constant delta / constant truth value over the rune's
// interval, and the result is an ite over those segments. No forking.

import (
	"math/big"
	"sync"
	"unicode"
)

type seg struct {
	lo, hi int64
	delta  int64 // for mappings
	val    bool  // for predicates
}

var (
	segMu    sync.Mutex
	segCache = map[string][]seg{}
)

func mapSegments(name string, f func(rune) rune) []seg {
	segMu.Lock()
	defer segMu.Unlock()
	if s, ok := segCache[name]; ok {
		return s
	}
	var out []seg
	for r := int64(0); r <= unicode.MaxRune; r++ {
		d := int64(f(rune(r))) - r
		if n := len(out); n > 0 && out[n-1].delta == d {
			out[n-1].hi = r
		} else {
			out = append(out, seg{lo: r, hi: r, delta: d})
		}
	}
	segCache[name] = out
	return out
}

func predSegments(name string, f func(rune) bool) []seg {
	segMu.Lock()
	defer segMu.Unlock()
	if s, ok := segCache[name]; ok {
		return s
	}
	var out []seg
	for r := int64(0); r <= unicode.MaxRune; r++ {
		v := f(rune(r))
		if n := len(out); n > 0 && out[n-1].val == v {
			out[n-1].hi = r
		} else {
			out = append(out, seg{lo: r, hi: r, val: v})
		}
	}
	segCache[name] = out
	return out
}

func runeInterval(t *Term) (int64, int64) {
	lo, hi := int64(-1<<31), int64(1<<31-1)
	if t.lo != nil && t.lo.IsInt64() && t.lo.Int64() > lo {
		lo = t.lo.Int64()
	}
	if t.hi != nil && t.hi.IsInt64() && t.hi.Int64() < hi {
		hi = t.hi.Int64()
	}
	return lo, hi
}

func init() {
	regMap := func(name string, f func(rune) rune) {
		reg("unicode."+name, func(fr *frame, a []Value) Value {
			switch r := a[0].(type) {
			case int64:
				return int64(f(rune(r)))
			case *Term:
				lo, hi := runeInterval(r)
				segs := mapSegments(name, f)
				res := r // outside [0,MaxRune]: unchanged (as the real functions do)
				n := 0
				for i := len(segs) - 1; i >= 0; i-- {
					s := segs[i]
					if s.hi < lo || s.lo > hi || s.delta == 0 {
						continue
					}
					n++
					in := tAnd(tGe(r, intConst(s.lo)), tLe(r, intConst(s.hi)))
					res = tIte(in, tAdd(r, intConst(s.delta)), res)
				}
				if n > 4000 {
					panic(engineError{"unicode mapping of a rune with a very wide interval"})
				}
				if res != r {
					res.lo, res.hi = big.NewInt(min64(lo, 0)), big.NewInt(max64(hi, unicode.MaxRune))
				}
				return lowerIntAny(res)
			}
			panic(engineError{"unicode." + name})
		})
	}
	regMap("ToLower", unicode.ToLower)
	regMap("ToUpper", unicode.ToUpper)
	regMap("ToTitle", unicode.ToTitle)
	regMap("SimpleFold", unicode.SimpleFold)
	regPred := func(name string, f func(rune) bool) {
		reg("unicode."+name, func(fr *frame, a []Value) Value {
			switch r := a[0].(type) {
			case int64:
				return f(rune(r))
			case *Term:
				lo, hi := runeInterval(r)
				segs := predSegments(name, f)
				res := falseT
				for _, s := range segs {
					if s.hi < lo || s.lo > hi || !s.val {
						continue
					}
					res = tOr(res, tAnd(tGe(r, intConst(s.lo)), tLe(r, intConst(s.hi))))
				}
				return lowerBool(res)
			}
			panic(engineError{"unicode." + name})
		})
	}
	regPred("IsSpace", unicode.IsSpace)
	regPred("IsUpper", unicode.IsUpper)
	regPred("IsLower", unicode.IsLower)
	regPred("IsLetter", unicode.IsLetter)
	regPred("IsDigit", unicode.IsDigit)
	regPred("IsNumber", unicode.IsNumber)
	regPred("IsPunct", unicode.IsPunct)
	regPred("IsControl", unicode.IsControl)
	regPred("IsPrint", unicode.IsPrint)
	regPred("IsGraphic", unicode.IsGraphic)
	regPred("IsSymbol", unicode.IsSymbol)
	regPred("IsTitle", unicode.IsTitle)
	regPred("IsMark", unicode.IsMark)
}

func min64(a, b int64) int64 {
	if a < b {
		return a
	}
	return b
}
func max64(a, b int64) int64 {
	if a > b {
		return a
	}
	return b
}
