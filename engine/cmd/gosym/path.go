package main

// Path exploration by prefix re-execution (DESIGN 1.3).
//
// A path is identified by its decision trail. A worker runs the harness
// from the start, following a forced prefix without solver queries, and at
// each new symbolic decision asks the solver which directions are feasible,
// continuing with one and queueing the other as a new work item.
//
// Solver side: one (push 1) per decision. When the next work item shares a
// prefix of decisions with the path just finished (the usual case, because
// each worker explores depth first from its own stack), the solver context
// of that prefix is retained and nothing of it is re-sent; definitions are
// named by the structural hash of the term so that names are stable across
// re-executions.

import (
	"fmt"
	"golang.org/x/tools/go/ssa"
	"math"
	"math/big"
	"os"
	"strconv"
	"strings"
	"sync"
	"time"
)

// slowLogMs: GOSYM_SLOW=<ms> prints every solver query slower than that (debugging aid).
var slowLogMs, _ = strconv.Atoi(os.Getenv("GOSYM_SLOW"))

// forceEscalate: GOSYM_FORCE_ESCALATE=1 sends every assertion query through escalate() (testing aid).
var forceEscalate = os.Getenv("GOSYM_FORCE_ESCALATE") == "1"

type Decision struct {
	Dir bool
	Val int64 // payload for value-enumeration decisions
}

type WorkItem struct {
	trail []Decision
}

// control-flow sentinels (Go panics inside the interpreter)
type pathEnd struct{ reason string }  // path killed: infeasible assumption
type engineError struct{ msg string } // unsupported construct: inconclusive
type violationEnd struct{}            // a violation was recorded; stop this path
type budgetEnd struct{ what string }

type NondetEntry struct {
	Kind string // "int","bool","float","choice"
	Term *Term  // nil for concrete choices
	Conc int64
	Bits uint
	Sgn  bool
}

type Violation struct {
	Harness string       `json:"harness"`
	Kind    string       `json:"kind"` // assert | panic
	Msg     string       `json:"msg"`
	Vector  []ReplayItem `json:"vector"`
	Trail   string       `json:"trail"`
	Where   string       `json:"where"`
}

type ReplayItem struct {
	K string  `json:"k"`
	I string  `json:"i,omitempty"`
	F float64 `json:"f,omitempty"`
	B bool    `json:"b,omitempty"`
}

type Stats struct {
	PathsNontrivial                                                         int
	Paths, PathsOK, PathsAssumeEnd, PathsViolation, PathsError, PathsBudget int
	AssertsChecked, AssertsSymbolic, AssertsConcrete                        int
	Branches, Forks                                                         int
	Steps                                                                   int64
	Queries, QSat, QUnsat, QUnknown                                         int
	SolverTime                                                              time.Duration
	CrossChecks, CrossDisagree                                              int
	Escalated, EscalatedDecided                                             int
	Errors                                                                  map[string]int
	Funcs                                                                   map[string]bool
	Stubs                                                                   map[string]int
	Samples                                                                 []string
	Violations                                                              []Violation
	Witnesses                                                               []Violation
	ReachWitness                                                            int
	SolverRestarts                                                          int
	Notes                                                                   map[string]int
	NoteErr                                                                 map[string]int
	NoteSolver                                                              map[string]float64
}

type Explorer struct {
	mu       sync.Mutex
	cond     *sync.Cond
	stacks   [][]WorkItem // one per worker
	active   int
	stop     bool
	stats    Stats
	maxPaths int
	deadline time.Time
	harness  string
	maxViol  int
	seenViol map[string]bool
}

func newExplorer(h string, nworkers int, maxPaths int, deadline time.Time) *Explorer {
	e := &Explorer{harness: h, maxPaths: maxPaths, deadline: deadline, maxViol: 40}
	e.cond = sync.NewCond(&e.mu)
	e.stacks = make([][]WorkItem, nworkers)
	e.stacks[0] = []WorkItem{{}}
	e.stats.Errors = map[string]int{}
	e.stats.Funcs = map[string]bool{}
	e.stats.Stubs = map[string]int{}
	return e
}

func (e *Explorer) queued() int {
	n := 0
	for _, s := range e.stacks {
		n += len(s)
	}
	return n
}

func (e *Explorer) take(id int) (WorkItem, bool) {
	e.mu.Lock()
	defer e.mu.Unlock()
	for {
		if e.stop {
			return WorkItem{}, false
		}
		if s := e.stacks[id]; len(s) > 0 {
			it := s[len(s)-1]
			e.stacks[id] = s[:len(s)-1]
			e.active++
			return it, true
		}
		// steal the shallowest item of the fullest stack
		best := -1
		for i, s := range e.stacks {
			if len(s) > 0 && (best < 0 || len(s) > len(e.stacks[best])) {
				best = i
			}
		}
		if best >= 0 {
			s := e.stacks[best]
			it := s[0]
			e.stacks[best] = s[1:]
			e.active++
			return it, true
		}
		if e.active == 0 {
			e.cond.Broadcast()
			return WorkItem{}, false
		}
		e.cond.Wait()
	}
}

func (e *Explorer) done() {
	e.mu.Lock()
	e.active--
	if e.active == 0 && e.queued() == 0 {
		e.cond.Broadcast()
	}
	e.mu.Unlock()
}

func (e *Explorer) push(id int, it WorkItem) {
	e.mu.Lock()
	e.stacks[id] = append(e.stacks[id], it)
	e.stats.Forks++
	e.cond.Signal()
	e.mu.Unlock()
}

// solverCtx mirrors what the solver currently holds: levels[k] is what was
// sent after the k-th push (level 0: before any decision); push k+1 is the
// one of decisions[k].
type solverCtx struct {
	decisions []Decision
	levels    []*ctxLevel
	defined   map[string]uint64
	fresh     bool
}

type ctxLevel struct {
	names []string
	text  strings.Builder
}

func (w *Worker) resetCtx() {
	c := &w.ctx
	c.decisions = nil
	c.levels = []*ctxLevel{{}}
	c.defined = map[string]uint64{}
	c.fresh = true
	w.solver.send("(reset)\n(set-option :produce-models true)\n")
	if w.solver.name == "cvc5" {
		w.solver.send("(set-logic ALL)\n")
	}
	if w.cross != nil {
		w.cross.send("(reset)\n(set-option :produce-models true)\n")
		if w.cross.name == "cvc5" {
			w.cross.send("(set-logic ALL)\n")
		}
	}
}

func (c *solverCtx) top() *ctxLevel { return c.levels[len(c.levels)-1] }

// Path is the per-path symbolic state.
type Path struct {
	w          *Worker
	forced     []Decision
	pos        int
	taken      []Decision
	suppress   int      // levels 0..suppress are already in the solver context (-1: none)
	pending    []string // SMT commands not yet sent
	vars       []*Term
	nondets    []NondetEntry
	model      Model
	modelOK    bool
	pr         *printer
	steps      int64
	nvar       int
	asserts    int
	symAsrt    int
	reached    bool
	ghost      []string
	ufDeclared map[string]bool
	opaque     map[string]*Term
	ifCount    map[*ssa.If]int
	lastClock  *Term
	absText    map[string][]Value
	ifConc     map[*ssa.If]int
	facts      map[uint64]factVal
}

type factVal struct {
	h2  uint64
	val bool
}

// newPath prepares the solver context for a path with the given forced trail.
func (w *Worker) newPath(forced []Decision) *Path {
	p := &Path{w: w, forced: forced}
	c := &w.ctx
	if c.levels == nil {
		w.resetCtx()
	}
	if c.fresh {
		c.fresh = false
		p.suppress = -1
	} else {
		// longest common prefix with the retained context
		n := 0
		for n < len(forced) && n < len(c.decisions) && forced[n] == c.decisions[n] {
			n++
		}
		if n == len(forced) {
			// cannot happen for alternatives (each is taken once); be safe: reuse nothing
			w.resetCtx()
			c.fresh = false
			p.suppress = -1
		} else {
			if pop := len(c.decisions) - n; pop > 0 {
				for _, lv := range c.levels[n+1:] {
					for _, nm := range lv.names {
						delete(c.defined, nm)
					}
				}
				c.levels = c.levels[:n+1]
				c.decisions = c.decisions[:n]
				w.solver.send(fmt.Sprintf("(pop %d)\n", pop))
			}
			p.suppress = n
		}
	}
	p.pr = &printer{defined: c.defined, onDef: func(name string) {
		lv := c.top()
		lv.names = append(lv.names, name)
	}}
	return p
}

func (p *Path) suppressed() bool { return len(p.taken) <= p.suppress }

func (p *Path) emit(cmd string) {
	if p.suppressed() {
		return
	}
	p.pending = append(p.pending, cmd)
}

// decide records a decision and opens a solver level for it.
func (p *Path) decide(d Decision) {
	p.taken = append(p.taken, d)
	if trailLog != nil && p.w.curFrame != nil {
		p.w.whereLog = append(p.w.whereLog, p.w.curFrame.where(p.w.curInstr.Pos()))
	}
	if len(p.taken) <= p.suppress {
		return
	}
	p.flush()
	c := &p.w.ctx
	p.w.solver.send("(push 1)\n")
	c.decisions = append(c.decisions, d)
	c.levels = append(c.levels, &ctxLevel{})
}

// finish leaves the solver context consistent with the bookkeeping.
func (p *Path) finish() {
	if !p.suppressed() {
		p.flush()
	}
	p.pending = p.pending[:0]
}

func (p *Path) declare(t *Term) {
	p.vars = append(p.vars, t)
	p.emit(fmt.Sprintf("(declare-const %s %s)\n", t.raw, t.sort))
	if t.sort == SInt && t.lo != nil && t.hi != nil {
		p.emit(fmt.Sprintf("(assert (and (<= %s %s) (<= %s %s)))\n", smtInt(t.lo), t.raw, t.raw, smtInt(t.hi)))
	}
	p.modelOK = false
}

func (p *Path) freshInt(bits uint, signed bool) *Term {
	var lo, hi *big.Int
	if signed {
		lo = new(big.Int).Neg(pow2(bits - 1))
		hi = new(big.Int).Sub(pow2(bits-1), big1)
	} else {
		lo = big0
		hi = new(big.Int).Sub(pow2(bits), big1)
	}
	return p.freshIntRange(lo, hi)
}

func (p *Path) freshIntRange(lo, hi *big.Int) *Term {
	t := newVar(fmt.Sprintf("v%d", p.nvar), SInt, lo, hi)
	p.nvar++
	p.declare(t)
	return t
}

func (p *Path) freshBool() *Term {
	t := newVar(fmt.Sprintf("v%d", p.nvar), SBool, nil, nil)
	p.nvar++
	p.declare(t)
	return t
}

func (p *Path) freshFP() *Term {
	t := newVar(fmt.Sprintf("v%d", p.nvar), SFP, nil, nil)
	p.nvar++
	p.declare(t)
	return t
}

func (p *Path) termStr(t *Term) string {
	var defs strings.Builder
	p.pr.out = &defs
	if p.suppressed() {
		// every definition needed here is already in the retained context
		before := len(p.pr.defined)
		s := p.pr.str(t)
		if len(p.pr.defined) != before {
			panic(engineError{"internal: definition missing from the retained solver context"})
		}
		return s
	}
	s := p.pr.str(t)
	if defs.Len() > 0 {
		p.pending = append(p.pending, defs.String())
	}
	return s
}

// learn records an asserted condition: atoms go to the fact cache (so that
// the same question is never asked twice on a path) and bounds on variables
// tighten the variable's interval.
func (p *Path) learn(t *Term, val bool) {
	if t.isConst() {
		return
	}
	switch t.op {
	case "not":
		p.learn(t.args[0], !val)
		return
	case "and":
		if val {
			p.learn(t.args[0], true)
			p.learn(t.args[1], true)
			return
		}
	case "or":
		if !val {
			p.learn(t.args[0], false)
			p.learn(t.args[1], false)
			return
		}
	}
	if p.facts == nil {
		p.facts = map[uint64]factVal{}
	}
	h1, h2 := t.hash()
	p.facts[h1] = factVal{h2, val}
	// var-vs-const bounds
	if len(t.args) == 2 && t.args[0].sort == SInt {
		a, b := t.args[0], t.args[1]
		op := t.op
		if a.isConst() && b.op == "var" {
			a, b = b, a
			switch op {
			case "<":
				op = ">"
			case "<=":
				op = ">="
			case ">":
				op = "<"
			case ">=":
				op = "<="
			}
		}
		if a.op == "var" && b.isConst() {
			if !val {
				switch op {
				case "<":
					op = ">="
				case "<=":
					op = ">"
				case ">":
					op = "<="
				case ">=":
					op = "<"
				case "=":
					op = "!="
				}
			}
			c := b.val
			switch op {
			case "<":
				tightenHi(a, new(big.Int).Sub(c, big1))
			case "<=":
				tightenHi(a, c)
			case ">":
				tightenLo(a, new(big.Int).Add(c, big1))
			case ">=":
				tightenLo(a, c)
			case "=":
				tightenLo(a, c)
				tightenHi(a, c)
			case "!=":
				if a.lo != nil && a.lo.Cmp(c) == 0 {
					a.lo = new(big.Int).Add(c, big1)
				}
				if a.hi != nil && a.hi.Cmp(c) == 0 {
					a.hi = new(big.Int).Sub(c, big1)
				}
			}
		}
	}
}

func tightenHi(v *Term, c *big.Int) {
	if v.hi == nil || c.Cmp(v.hi) < 0 {
		v.hi = c
	}
}
func tightenLo(v *Term, c *big.Int) {
	if v.lo == nil || c.Cmp(v.lo) > 0 {
		v.lo = c
	}
}

// known returns the truth value of c if it follows syntactically from what
// was asserted on this path.
func (p *Path) known(c *Term) (bool, bool) {
	if c.isConst() {
		return c.bval, true
	}
	if p.facts != nil {
		h1, h2 := c.hash()
		if f, ok := p.facts[h1]; ok && f.h2 == h2 {
			return f.val, true
		}
	}
	switch c.op {
	case "not":
		v, ok := p.known(c.args[0])
		return !v, ok
	case "and":
		a, oka := p.known(c.args[0])
		b, okb := p.known(c.args[1])
		if (oka && !a) || (okb && !b) {
			return false, true
		}
		return true, oka && okb
	case "or":
		a, oka := p.known(c.args[0])
		b, okb := p.known(c.args[1])
		if (oka && a) || (okb && b) {
			return true, true
		}
		return false, oka && okb
	case "<", "<=", ">", ">=", "=":
		if c.args[0].sort == SInt {
			if r, ok := cmpFold(c.op, c.args[0], c.args[1]); ok {
				return r.bval, true
			}
		}
	}
	return false, false
}

func (p *Path) assertTerm(t *Term) {
	if t.isConst() {
		if !t.bval {
			panic(pathEnd{"asserted false"})
		}
		return
	}
	p.learn(t, true)
	s := p.termStr(t)
	p.emit("(assert " + s + ")\n")
	if p.modelOK {
		if v, ok := p.model.evalBool(t); !ok || !v {
			p.modelOK = false
		}
	}
}

func (p *Path) flush() {
	if len(p.pending) == 0 {
		return
	}
	txt := strings.Join(p.pending, "")
	p.w.solver.send(txt)
	p.w.ctx.top().text.WriteString(txt)
	p.pending = p.pending[:0]
}

// check asks whether pc ∧ c is satisfiable.
func (p *Path) check(c *Term, wantModel bool) (Verdict, Model) {
	if c.isConst() && !c.bval {
		return Unsat, nil
	}
	if p.suppressed() {
		panic(engineError{"internal: solver query inside the retained prefix"})
	}
	cs := p.termStr(c)
	p.flush()
	s := p.w.solver
	s.send("(push 1)\n(assert " + cs + ")\n")
	s.tempPush = true
	tq := time.Now()
	v := s.checkSat()
	s.tempPush = false
	if slowLogMs > 0 && time.Since(tq) > time.Duration(slowLogMs)*time.Millisecond {
		note := ""
		if len(p.ghost) > 0 {
			note = p.ghost[0]
		}
		fmt.Fprintf(os.Stderr, "SLOW %s %.1fs note=%s len=%d q=%.300s\n", v, time.Since(tq).Seconds(), note, len(cs), cs)
	}
	var m Model
	if v == Sat && wantModel {
		m = p.fetchModel()
	}
	s.send("(pop 1)\n")
	if v == Unknown {
		if s.lastErr != "" {
			panic(engineError{"solver error: " + s.lastErr})
		}
	}
	if p.w.cross != nil && (v != Sat || p.w.crossAll) {
		p.crossCheck(cs, v)
	}
	return v, m
}

func (p *Path) fetchModel() Model {
	vals, err := p.w.solver.getValues(p.vars)
	if err != nil {
		return nil
	}
	m := Model{}
	for k, v := range vals {
		if v.I != nil {
			m[k] = v.I
		}
	}
	p.w.lastVals = vals
	return m
}

// crossCheck re-runs the query pc ∧ c from scratch on the second back end.
func (p *Path) crossCheck(cs string, v Verdict) {
	w := p.w
	if !w.crossAll {
		w.crossCtr++
		if w.crossCtr%20 != 0 {
			return
		}
	}
	cx := w.cross
	var sb strings.Builder
	sb.WriteString("(push 1)\n")
	for _, lv := range w.ctx.levels {
		sb.WriteString(lv.text.String())
	}
	sb.WriteString("(assert " + cs + ")\n")
	cx.send(sb.String())
	v2 := cx.checkSat()
	cx.send("(pop 1)\n")
	cx.lastErr = ""
	w.ex.mu.Lock()
	w.ex.stats.CrossChecks++
	if v2 != Unknown && v != Unknown && v2 != v {
		w.ex.stats.CrossDisagree++
	}
	w.ex.mu.Unlock()
}

func (p *Path) pushAlt(d Decision) {
	alt := make([]Decision, len(p.taken)+1)
	copy(alt, p.taken)
	alt[len(p.taken)] = d
	p.w.ex.push(p.w.id, WorkItem{trail: alt})
}

// Branch decides a symbolic condition for this path.
func (p *Path) Branch(c *Term) bool {
	if c.isConst() {
		return c.bval
	}
	if v, ok := p.known(c); ok {
		p.w.knownBranches++
		return v
	}
	p.w.branches++
	if p.pos < len(p.forced) {
		d := p.forced[p.pos]
		p.pos++
		p.decide(d)
		if d.Dir {
			p.assertTerm(c)
		} else {
			p.assertTerm(tNot(c))
		}
		return d.Dir
	}
	p.pos++
	nc := tNot(c)
	feasT, feasF := Unknown, Unknown
	var mT, mF Model
	if p.modelOK {
		if v, ok := p.model.evalBool(c); ok {
			if v {
				feasT, mT = Sat, p.model
			} else {
				feasF, mF = Sat, p.model
			}
		}
	}
	if feasT != Sat {
		feasT, mT = p.check(c, true)
	}
	if feasT == Unsat {
		// pc is satisfiable (maintained), so ¬c is
		feasF, mF = Sat, nil
		if p.modelOK {
			mF = p.model
		}
	} else if feasF != Sat {
		feasF, mF = p.check(nc, true)
	}
	if feasT == Unknown || feasF == Unknown {
		p.w.unknownBranches++
	}
	okT := feasT != Unsat
	okF := feasF != Unsat
	if !okT && !okF {
		panic(pathEnd{"path condition unsatisfiable"})
	}
	dir := okT
	if okT && okF {
		p.pushAlt(Decision{Dir: false})
	}
	p.decide(Decision{Dir: dir})
	if dir {
		p.assertTerm(c)
		p.model, p.modelOK = mT, mT != nil
	} else {
		p.assertTerm(nc)
		p.model, p.modelOK = mF, mF != nil
	}
	return dir
}

// Concretize enumerates the feasible values of an integer term.
func (p *Path) Concretize(t *Term) int64 {
	for {
		if t.isConst() {
			return t.val.Int64()
		}
		if t.lo != nil && t.hi != nil && t.lo.Cmp(t.hi) == 0 && t.lo.IsInt64() {
			return t.lo.Int64()
		}
		if p.pos < len(p.forced) {
			d := p.forced[p.pos]
			p.pos++
			p.decide(d)
			eq := tEq(t, intConst(d.Val))
			if d.Dir {
				p.assertTerm(eq)
				return d.Val
			}
			p.assertTerm(tNot(eq))
			continue
		}
		// pick a candidate value: the model's, else ask the solver
		var cand *big.Int
		if p.modelOK {
			if v, ok := p.model.evalInt(t); ok {
				cand = v
			}
		}
		if cand == nil {
			v, m := p.check(trueT2(), true)
			if v != Sat || m == nil {
				if v == Unsat {
					panic(pathEnd{"infeasible at concretize"})
				}
				panic(engineError{"cannot obtain a model to concretize a value"})
			}
			p.model, p.modelOK = m, true
			if iv, ok := m.evalInt(t); ok {
				cand = iv
			} else {
				cand = p.solverValue(t)
			}
		}
		if !cand.IsInt64() {
			panic(engineError{"concretize: value out of int64"})
		}
		cv := cand.Int64()
		eq := tEq(t, intConst(cv))
		if eq.isConst() {
			if eq.bval {
				return cv
			}
			p.modelOK = false
			continue
		}
		p.pos++
		// is another value possible?
		vOther, _ := p.check(tNot(eq), false)
		if vOther != Unsat {
			p.pushAlt(Decision{Dir: false, Val: cv})
		}
		p.decide(Decision{Dir: true, Val: cv})
		p.assertTerm(eq)
		return cv
	}
}

func trueT2() *Term { return newTerm("and", SBool, trueT, trueT) }

func (p *Path) solverValue(t *Term) *big.Int {
	ts := p.termStr(t)
	p.flush()
	s := p.w.solver
	switch s.checkSat() {
	case Unsat:
		panic(pathEnd{"infeasible"})
	case Unknown:
		panic(engineError{"unknown while concretizing"})
	}
	s.send("(get-value (" + ts + "))\n")
	txt, err := s.readSexp()
	if err != nil {
		panic(engineError{"solver died"})
	}
	e := parseSexp(txt)
	if e != nil && len(e.list) == 1 && len(e.list[0].list) == 2 {
		if v, ok := sexpInt(e.list[0].list[1]); ok {
			return v
		}
	}
	panic(engineError{"cannot read value: " + txt})
}

// Choice forks over n concrete alternatives (always all feasible).
func (p *Path) Choice(n int) int {
	if n <= 1 {
		return 0
	}
	if p.pos < len(p.forced) {
		d := p.forced[p.pos]
		p.pos++
		p.decide(d)
		return int(d.Val)
	}
	p.pos++
	for k := n - 1; k >= 1; k-- {
		p.pushAlt(Decision{Dir: true, Val: int64(k)})
	}
	p.decide(Decision{Dir: true, Val: 0})
	return 0
}

// Assume adds c to the path condition, ending the path if infeasible.
func (p *Path) Assume(c *Term) {
	if c.isConst() {
		if !c.bval {
			panic(pathEnd{"assume(false)"})
		}
		return
	}
	if v, ok := p.known(c); ok {
		if !v {
			panic(pathEnd{"assumption contradicts the path condition"})
		}
		return
	}
	if p.pos < len(p.forced) {
		// a later forced decision exists: the ancestor path already showed feasibility
		p.assertTerm(c)
		return
	}
	if p.modelOK {
		if v, ok := p.model.evalBool(c); ok && v {
			p.assertTerm(c)
			return
		}
	}
	v, m := p.check(c, true)
	if v == Unsat {
		panic(pathEnd{"assumption infeasible"})
	}
	p.assertTerm(c)
	p.model, p.modelOK = m, m != nil
}

// CheckAssert discharges an assertion: a violation iff pc ∧ ¬c is satisfiable.
func (p *Path) CheckAssert(c *Term, kind, msg, where string) {
	p.asserts++
	if c.isConst() {
		if c.bval {
			return
		}
		p.violation(kind, msg, where, nil)
		panic(violationEnd{})
	}
	p.symAsrt++
	if v, ok := p.known(c); ok && v {
		return
	}
	if p.pos < len(p.forced) {
		// discharged by the ancestor path that created this work item
		p.assertTerm(c)
		return
	}
	v, _ := p.check(tNot(c), true)
	if v == Unknown || forceEscalate {
		// The per-query limit is tuned for feasibility queries (an unknown one only keeps a branch) and is
		// wall-clock, so under load an assertion query near it comes back unknown. The run is called
		// inconclusive only after the same query, from scratch, had a long limit on both back ends.
		v = p.escalate(tNot(c))
	}
	switch v {
	case Sat:
		p.violation(kind, msg, where, p.w.lastVals)
		panic(violationEnd{})
	case Unknown:
		panic(engineError{"solver unknown on assertion: " + msg})
	}
	p.assertTerm(c)
}

// escalateMs is the per-query limit of an escalated assertion query (GOSYM_ESCALATE_MS overrides).
func escalateMs(base int) int {
	if n, err := strconv.Atoi(os.Getenv("GOSYM_ESCALATE_MS")); err == nil && n > 0 {
		return n
	}
	if 15*base > 120000 {
		return 15 * base
	}
	return 120000
}

// escalate decides pc ∧ c again on fresh solver processes with a long limit: first the primary back end,
// then the other one. The query text is the retained context plus c, exactly what the primary was asked.
// A sat answer leaves its model in w.lastVals like check does.
func (p *Path) escalate(c *Term) Verdict {
	w := p.w
	p.termStr(c)
	p.flush()
	prim := w.solver
	kinds := []string{prim.name, "cvc5"}
	if prim.name == "cvc5" {
		kinds[1] = "z3"
	}
	w.ex.mu.Lock()
	w.ex.stats.Escalated++
	w.ex.mu.Unlock()
	for _, kind := range kinds {
		es, err := startSolver(kind, escalateMs(prim.timeoutMs))
		if err != nil {
			continue
		}
		var sb strings.Builder
		for _, lv := range w.ctx.levels {
			sb.WriteString(lv.text.String())
		}
		es.send(sb.String())
		v := func() (v Verdict) {
			w.solver = es
			defer func() {
				w.solver = prim
				if r := recover(); r != nil {
					if _, ok := r.(engineError); !ok {
						panic(r)
					}
					v = Unknown
				}
			}()
			v, _ = p.check(c, true)
			return v
		}()
		prim.queries += es.queries
		prim.nSat += es.nSat
		prim.nUnsat += es.nUnsat
		prim.nUnk += es.nUnk
		prim.elapsed += es.elapsed
		es.close()
		if v != Unknown {
			w.ex.mu.Lock()
			w.ex.stats.EscalatedDecided++
			w.ex.mu.Unlock()
			return v
		}
	}
	return Unknown
}

func (p *Path) violation(kind, msg, where string, vals map[string]ModelVal) {
	if vals == nil {
		if p.suppressed() || p.pos < len(p.forced) {
			return // reported by the ancestor already
		}
		v, _ := p.check(trueT2(), true)
		if v == Sat {
			vals = p.w.lastVals
		} else if v == Unsat {
			panic(pathEnd{"violation on infeasible path"})
		} else {
			panic(engineError{"solver unknown on the path of a violation: " + msg})
		}
	}
	vio := Violation{Harness: p.w.ex.harness, Kind: kind, Msg: msg, Where: where, Trail: trailString(p.taken)}
	vio.Vector = p.vectorFrom(vals)
	for _, n := range p.nondets[:0] {
		it := ReplayItem{K: n.Kind}
		if n.Term == nil {
			it.I = fmt.Sprint(n.Conc)
		} else if mv, ok := vals[n.Term.raw]; ok {
			switch n.Kind {
			case "float":
				if !math.IsNaN(mv.F) && !math.IsInf(mv.F, 0) {
					it.F = mv.F // informational; the bit pattern in I is what the replay uses
				}
				it.I = fmt.Sprintf("%x", mathFloat64bits(mv.F))
			case "bool":
				it.B = mv.B
			default:
				if mv.I != nil {
					it.I = mv.I.String()
				} else {
					it.I = "0"
				}
			}
		} else {
			it.I = "0"
		}
		vio.Vector = append(vio.Vector, it)
	}
	ex := p.w.ex
	ex.mu.Lock()
	key := kind + "|" + msg + "|" + where
	if ex.seenViol == nil {
		ex.seenViol = map[string]bool{}
	}
	if ex.seenViol[key] {
		ex.mu.Unlock()
		return
	}
	ex.seenViol[key] = true
	ex.stats.Violations = append(ex.stats.Violations, vio)
	if len(ex.stats.Violations) >= ex.maxViol {
		ex.stop = true
		ex.cond.Broadcast()
	}
	ex.mu.Unlock()
}

func trailString(t []Decision) string {
	var sb strings.Builder
	for _, d := range t {
		if d.Val != 0 {
			fmt.Fprintf(&sb, "%d", d.Val)
			if !d.Dir {
				sb.WriteByte('!')
			}
			sb.WriteByte(',')
		} else if d.Dir {
			sb.WriteByte('T')
		} else {
			sb.WriteByte('F')
		}
	}
	return sb.String()
}

// vectorFrom turns a model into the replay vector of the path's nondets.
func (p *Path) vectorFrom(vals map[string]ModelVal) []ReplayItem {
	var out []ReplayItem
	for _, n := range p.nondets {
		it := ReplayItem{K: n.Kind}
		if n.Term == nil {
			it.I = fmt.Sprint(n.Conc)
		} else if mv, ok := vals[n.Term.raw]; ok {
			switch n.Kind {
			case "float":
				if !math.IsNaN(mv.F) && !math.IsInf(mv.F, 0) {
					it.F = mv.F
				}
				it.I = fmt.Sprintf("%x", mathFloat64bits(mv.F))
			case "bool":
				it.B = mv.B
			default:
				if mv.I != nil {
					it.I = mv.I.String()
				} else {
					it.I = "0"
				}
			}
		} else {
			it.I = "0"
		}
		out = append(out, it)
	}
	return out
}
