package main

// Path exploration by prefix re-execution (DESIGN 1.3).
//
// A path is identified by its decision trail. A worker runs the harness
// from the start, following a forced prefix without solver queries, and at
// each new symbolic decision asks the solver which directions are feasible,
// continuing with one and queueing the other as a new work item.

import (
	"fmt"
	"math/big"
	"strings"
	"sync"
	"time"
)

type Decision struct {
	Dir bool
	Val int64 // payload for value-enumeration decisions
}

type WorkItem struct {
	trail []Decision
}

// control-flow sentinels (Go panics inside the interpreter)
type pathEnd struct{ reason string }  // path killed: infeasible assumption
type engineError struct{ msg string } // unsupported construct: inconclusive
type violationEnd struct{}            // a violation was recorded; stop this path
type budgetEnd struct{ what string }

type NondetEntry struct {
	Kind string // "int","bool","float","choice"
	Term *Term  // nil for concrete choices
	Conc int64
	Bits uint
	Sgn  bool
}

type Violation struct {
	Harness string       `json:"harness"`
	Kind    string       `json:"kind"` // assert | panic
	Msg     string       `json:"msg"`
	Vector  []ReplayItem `json:"vector"`
	Trail   string       `json:"trail"`
	Where   string       `json:"where"`
}

type ReplayItem struct {
	K string  `json:"k"`
	I string  `json:"i,omitempty"`
	F float64 `json:"f,omitempty"`
	B bool    `json:"b,omitempty"`
}

type Stats struct {
	PathsNontrivial int
	Paths, PathsOK, PathsAssumeEnd, PathsViolation, PathsError, PathsBudget int
	AssertsChecked, AssertsSymbolic, AssertsConcrete                        int
	Branches, Forks                                                         int
	Steps                                                                   int64
	Queries, QSat, QUnsat, QUnknown                                         int
	SolverTime                                                              time.Duration
	CrossChecks, CrossDisagree                                              int
	Errors                                                                  map[string]int
	Funcs                                                                   map[string]bool
	Stubs                                                                   map[string]int
	Samples                                                                 []string
	Violations                                                              []Violation
	ReachWitness                                                            int
}

type Explorer struct {
	mu       sync.Mutex
	cond     *sync.Cond
	queue    []WorkItem
	active   int
	stop     bool
	stats    Stats
	maxPaths int
	deadline time.Time
	harness  string
	maxViol  int
	seenViol map[string]bool
}

func newExplorer(h string, maxPaths int, deadline time.Time) *Explorer {
	e := &Explorer{harness: h, maxPaths: maxPaths, deadline: deadline, maxViol: 40}
	e.cond = sync.NewCond(&e.mu)
	e.queue = []WorkItem{{}}
	e.stats.Errors = map[string]int{}
	e.stats.Funcs = map[string]bool{}
	e.stats.Stubs = map[string]int{}
	return e
}

func (e *Explorer) take() (WorkItem, bool) {
	e.mu.Lock()
	defer e.mu.Unlock()
	for {
		if e.stop {
			return WorkItem{}, false
		}
		if len(e.queue) > 0 {
			it := e.queue[len(e.queue)-1]
			e.queue = e.queue[:len(e.queue)-1]
			e.active++
			return it, true
		}
		if e.active == 0 {
			e.cond.Broadcast()
			return WorkItem{}, false
		}
		e.cond.Wait()
	}
}

func (e *Explorer) done() {
	e.mu.Lock()
	e.active--
	if e.active == 0 && len(e.queue) == 0 {
		e.cond.Broadcast()
	}
	e.mu.Unlock()
}

func (e *Explorer) push(it WorkItem) {
	e.mu.Lock()
	e.queue = append(e.queue, it)
	e.stats.Forks++
	e.cond.Signal()
	e.mu.Unlock()
}

// Path is the per-path symbolic state.
type Path struct {
	w          *Worker
	forced     []Decision
	pos        int
	taken      []Decision
	pending    []string // SMT commands not yet sent
	vars       []*Term
	nondets    []NondetEntry
	model      Model
	modelOK    bool
	pr         *printer
	steps      int64
	nvar       int
	asserts    int
	symAsrt    int
	reached    bool
	imprecise  string
	ghost      []string
	ufDeclared map[string]bool
}

func (p *Path) declare(t *Term) {
	p.vars = append(p.vars, t)
	p.pending = append(p.pending, fmt.Sprintf("(declare-const %s %s)\n", t.raw, t.sort))
	if t.sort == SInt && t.lo != nil && t.hi != nil {
		p.pending = append(p.pending, fmt.Sprintf("(assert (and (<= %s %s) (<= %s %s)))\n", smtInt(t.lo), t.raw, t.raw, smtInt(t.hi)))
	}
	p.modelOK = false
}

func (p *Path) freshInt(bits uint, signed bool) *Term {
	var lo, hi *big.Int
	if signed {
		lo = new(big.Int).Neg(pow2(bits - 1))
		hi = new(big.Int).Sub(pow2(bits-1), big1)
	} else {
		lo = big0
		hi = new(big.Int).Sub(pow2(bits), big1)
	}
	return p.freshIntRange(lo, hi)
}

func (p *Path) freshIntRange(lo, hi *big.Int) *Term {
	t := newVar(fmt.Sprintf("v%d", p.nvar), SInt, lo, hi)
	p.nvar++
	p.declare(t)
	return t
}

func (p *Path) freshBool() *Term {
	t := newVar(fmt.Sprintf("v%d", p.nvar), SBool, nil, nil)
	p.nvar++
	p.declare(t)
	return t
}

func (p *Path) freshFP() *Term {
	t := newVar(fmt.Sprintf("v%d", p.nvar), SFP, nil, nil)
	p.nvar++
	p.declare(t)
	return t
}

func (p *Path) termStr(t *Term) string {
	var defs strings.Builder
	p.pr.out = &defs
	s := p.pr.str(t)
	if defs.Len() > 0 {
		p.pending = append(p.pending, defs.String())
	}
	return s
}

func (p *Path) assertTerm(t *Term) {
	if t.isConst() {
		if !t.bval {
			panic(pathEnd{"asserted false"})
		}
		return
	}
	s := p.termStr(t)
	p.pending = append(p.pending, "(assert "+s+")\n")
	if p.modelOK {
		if v, ok := p.model.evalBool(t); !ok || !v {
			p.modelOK = false
		}
	}
}

func (p *Path) flush() {
	if len(p.pending) == 0 {
		return
	}
	s := p.w.solver
	txt := strings.Join(p.pending, "")
	s.send(txt)
	if p.w.cross != nil {
		p.w.pathLog.WriteString(txt)
	}
	p.pending = p.pending[:0]
}

// check asks whether pc ∧ c is satisfiable. On Sat it refreshes p's model
// only when keepModel is set (i.e. the caller is going to assert c).
func (p *Path) check(c *Term, wantModel bool) (Verdict, Model) {
	if c.isConst() && !c.bval {
		return Unsat, nil
	}
	cs := p.termStr(c)
	p.flush()
	s := p.w.solver
	s.send("(push 1)\n(assert " + cs + ")\n")
	v := s.checkSat()
	var m Model
	if v == Sat && wantModel {
		m = p.fetchModel()
	}
	s.send("(pop 1)\n")
	if v == Unknown {
		if s.lastErr != "" {
			panic(engineError{"solver error: " + s.lastErr})
		}
	}
	if p.w.cross != nil && (v != Sat || p.w.crossAll) {
		p.crossCheck(c, v)
	}
	return v, m
}

func (p *Path) fetchModel() Model {
	vals, err := p.w.solver.getValues(p.vars)
	if err != nil {
		return nil
	}
	m := Model{}
	for k, v := range vals {
		if v.I != nil {
			m[k] = v.I
		}
	}
	p.w.lastVals = vals
	return m
}

// crossCheck re-runs the query pc ∧ c from scratch on the second back end.
func (p *Path) crossCheck(c *Term, v Verdict) {
	w := p.w
	if !w.crossAll {
		w.crossCtr++
		if w.crossCtr%20 != 0 && v != Sat {
			return
		}
	}
	cs := p.termStr(c)
	p.flush()
	cx := w.cross
	cx.send("(push 1)\n" + w.pathLog.String() + "(assert " + cs + ")\n")
	v2 := cx.checkSat()
	cx.send("(pop 1)\n")
	cx.lastErr = ""
	w.ex.mu.Lock()
	w.ex.stats.CrossChecks++
	if v2 != Unknown && v != Unknown && v2 != v {
		w.ex.stats.CrossDisagree++
	}
	w.ex.mu.Unlock()
}

// Branch decides a symbolic condition for this path.
func (p *Path) Branch(c *Term) bool {
	if c.isConst() {
		return c.bval
	}
	p.w.branches++
	if p.pos < len(p.forced) {
		d := p.forced[p.pos]
		p.pos++
		p.taken = append(p.taken, d)
		if d.Dir {
			p.assertTerm(c)
		} else {
			p.assertTerm(tNot(c))
		}
		return d.Dir
	}
	p.pos++
	nc := tNot(c)
	feasT, feasF := Unknown, Unknown
	var mT, mF Model
	if p.modelOK {
		if v, ok := p.model.evalBool(c); ok {
			if v {
				feasT, mT = Sat, p.model
			} else {
				feasF, mF = Sat, p.model
			}
		}
	}
	if feasT != Sat {
		feasT, mT = p.check(c, true)
	}
	if feasT == Unsat {
		// pc is satisfiable (maintained), so ¬c is
		feasF, mF = Sat, nil
		if p.modelOK {
			mF = p.model
		}
	} else if feasF != Sat {
		feasF, mF = p.check(nc, true)
	}
	if feasT == Unknown || feasF == Unknown {
		p.w.unknownBranches++
	}
	okT := feasT != Unsat
	okF := feasF != Unsat
	if !okT && !okF {
		panic(pathEnd{"path condition unsatisfiable"})
	}
	dir := okT
	if okT && okF {
		alt := make([]Decision, len(p.taken)+1)
		copy(alt, p.taken)
		alt[len(p.taken)] = Decision{Dir: false}
		p.w.ex.push(WorkItem{trail: alt})
	}
	p.taken = append(p.taken, Decision{Dir: dir})
	if dir {
		p.assertTerm(c)
		p.model, p.modelOK = mT, mT != nil
	} else {
		p.assertTerm(nc)
		p.model, p.modelOK = mF, mF != nil
	}
	return dir
}

// Concretize enumerates the feasible values of an integer term.
func (p *Path) Concretize(t *Term) int64 {
	for {
		if t.isConst() {
			return t.val.Int64()
		}
		if p.pos < len(p.forced) {
			d := p.forced[p.pos]
			p.pos++
			p.taken = append(p.taken, d)
			eq := tEq(t, intConst(d.Val))
			if d.Dir {
				p.assertTerm(eq)
				return d.Val
			}
			p.assertTerm(tNot(eq))
			continue
		}
		// pick a candidate value: the model's, else ask the solver
		var cand *big.Int
		if p.modelOK {
			if v, ok := p.model.evalInt(t); ok {
				cand = v
			}
		}
		if cand == nil {
			v, m := p.check(trueT2(), true)
			if v != Sat || m == nil {
				if v == Unsat {
					panic(pathEnd{"infeasible at concretize"})
				}
				panic(engineError{"cannot obtain a model to concretize a value"})
			}
			p.model, p.modelOK = m, true
			if iv, ok := m.evalInt(t); ok {
				cand = iv
			} else {
				// ask the solver directly for the term's value
				cand = p.solverValue(t)
			}
		}
		if !cand.IsInt64() {
			panic(engineError{"concretize: value out of int64"})
		}
		cv := cand.Int64()
		p.pos++
		eq := tEq(t, intConst(cv))
		// is another value possible?
		vOther, mOther := p.check(tNot(eq), true)
		if vOther != Unsat {
			alt := make([]Decision, len(p.taken)+1)
			copy(alt, p.taken)
			alt[len(p.taken)] = Decision{Dir: false, Val: cv}
			p.w.ex.push(WorkItem{trail: alt})
			_ = mOther
		}
		p.taken = append(p.taken, Decision{Dir: true, Val: cv})
		p.assertTerm(eq)
		return cv
	}
}

func trueT2() *Term { return newTerm("and", SBool, trueT, trueT) }

func (p *Path) solverValue(t *Term) *big.Int {
	ts := p.termStr(t)
	p.flush()
	s := p.w.solver
	s.send("(check-sat)\n")
	// consume verdict
	for {
		line, err := s.out.ReadString('\n')
		if err != nil {
			panic(engineError{"solver died"})
		}
		line = strings.TrimSpace(line)
		if line == "sat" {
			break
		}
		if line == "unsat" {
			panic(pathEnd{"infeasible"})
		}
		if line == "unknown" {
			panic(engineError{"unknown while concretizing"})
		}
	}
	s.send("(get-value (" + ts + "))\n")
	txt, err := s.readSexp()
	if err != nil {
		panic(engineError{"solver died"})
	}
	e := parseSexp(txt)
	if e != nil && len(e.list) == 1 && len(e.list[0].list) == 2 {
		if v, ok := sexpInt(e.list[0].list[1]); ok {
			return v
		}
	}
	panic(engineError{"cannot read value: " + txt})
}

// Choice forks over n concrete alternatives (always all feasible).
func (p *Path) Choice(n int) int {
	if n <= 1 {
		return 0
	}
	if p.pos < len(p.forced) {
		d := p.forced[p.pos]
		p.pos++
		p.taken = append(p.taken, d)
		return int(d.Val)
	}
	p.pos++
	for k := n - 1; k >= 1; k-- {
		alt := make([]Decision, len(p.taken)+1)
		copy(alt, p.taken)
		alt[len(p.taken)] = Decision{Dir: true, Val: int64(k)}
		p.w.ex.push(WorkItem{trail: alt})
	}
	p.taken = append(p.taken, Decision{Dir: true, Val: 0})
	return 0
}

// Assume adds c to the path condition, ending the path if infeasible.
func (p *Path) Assume(c *Term) {
	if c.isConst() {
		if !c.bval {
			panic(pathEnd{"assume(false)"})
		}
		return
	}
	if p.pos < len(p.forced) {
		// inside the forced prefix feasibility was established by the parent... only for decisions.
	}
	if p.modelOK {
		if v, ok := p.model.evalBool(c); ok && v {
			p.assertTerm(c)
			return
		}
	}
	v, m := p.check(c, true)
	if v == Unsat {
		panic(pathEnd{"assumption infeasible"})
	}
	p.assertTerm(c)
	p.model, p.modelOK = m, m != nil
}

// CheckAssert discharges an assertion: a violation iff pc ∧ ¬c is satisfiable.
func (p *Path) CheckAssert(c *Term, kind, msg, where string) {
	p.asserts++
	if c.isConst() {
		if c.bval {
			return
		}
		p.violation(kind, msg, where, nil)
		panic(violationEnd{})
	}
	p.symAsrt++
	v, _ := p.check(tNot(c), true)
	switch v {
	case Sat:
		p.violation(kind, msg, where, p.w.lastVals)
		panic(violationEnd{})
	case Unknown:
		panic(engineError{"solver unknown on assertion: " + msg})
	}
	p.assertTerm(c)
}

func (p *Path) violation(kind, msg, where string, vals map[string]ModelVal) {
	if vals == nil {
		// need any model of the path condition
		v, _ := p.check(trueT2(), true)
		if v == Sat {
			vals = p.w.lastVals
		} else if v == Unsat {
			panic(pathEnd{"violation on infeasible path"})
		}
	}
	vio := Violation{Harness: p.w.ex.harness, Kind: kind, Msg: msg, Where: where, Trail: trailString(p.taken)}
	for _, n := range p.nondets {
		it := ReplayItem{K: n.Kind}
		if n.Term == nil {
			it.I = fmt.Sprint(n.Conc)
		} else if mv, ok := vals[n.Term.raw]; ok {
			switch n.Kind {
			case "float":
				it.F = mv.F
				it.I = fmt.Sprintf("%x", mathFloat64bits(mv.F))
			case "bool":
				it.B = mv.B
			default:
				if mv.I != nil {
					it.I = mv.I.String()
				} else {
					it.I = "0"
				}
			}
		} else {
			it.I = "0"
		}
		vio.Vector = append(vio.Vector, it)
	}
	ex := p.w.ex
	ex.mu.Lock()
	key := kind + "|" + msg + "|" + where
	if ex.seenViol == nil {
		ex.seenViol = map[string]bool{}
	}
	if ex.seenViol[key] {
		ex.mu.Unlock()
		return
	}
	ex.seenViol[key] = true
	ex.stats.Violations = append(ex.stats.Violations, vio)
	if len(ex.stats.Violations) >= ex.maxViol {
		ex.stop = true
		ex.cond.Broadcast()
	}
	ex.mu.Unlock()
}

func trailString(t []Decision) string {
	var sb strings.Builder
	for _, d := range t {
		if d.Val != 0 {
			fmt.Fprintf(&sb, "%d", d.Val)
			if !d.Dir {
				sb.WriteByte('!')
			}
			sb.WriteByte(',')
		} else if d.Dir {
			sb.WriteByte('T')
		} else {
			sb.WriteByte('F')
		}
	}
	return sb.String()
}
