// Package zzverif is the nondet runtime of the verification harnesses.
//
// Under gosym every function here is intercepted: the value returned is a
// fresh SMT variable (or a fork over concrete alternatives). Natively the
// same functions read the replay vector named by VERIF_REPLAY, so a harness
// is at the same time the replay test of its counterexamples.
//
// This package is injected into the build through an overlay only
// (rare/pkg/zzverif); nothing is written into the repository.
package zzverif

import (
	"encoding/json"
	"fmt"
	"math"
	"os"
	"strconv"
	"time"
)

type item struct {
	K string  `json:"k"`
	I string  `json:"i"`
	F float64 `json:"f"`
	B bool    `json:"b"`
}

var (
	vec    []item
	pos    int
	loaded bool
)

func load() {
	if loaded {
		return
	}
	loaded = true
	p := os.Getenv("VERIF_REPLAY")
	if p == "" {
		return
	}
	data, err := os.ReadFile(p)
	if err != nil {
		fmt.Println("ZZ-REPLAY-ERROR: cannot read vector:", err)
		os.Exit(5)
	}
	var v struct {
		Vector []item `json:"vector"`
	}
	if err := json.Unmarshal(data, &v); err != nil {
		fmt.Println("ZZ-REPLAY-ERROR: bad vector:", err)
		os.Exit(5)
	}
	vec = v.Vector
}

func next() item {
	load()
	if pos >= len(vec) {
		pos++
		return item{K: "int", I: "0"}
	}
	it := vec[pos]
	pos++
	return it
}

func nextInt() int64 {
	it := next()
	if it.I == "" {
		return 0
	}
	if v, err := strconv.ParseInt(it.I, 10, 64); err == nil {
		return v
	}
	if u, err := strconv.ParseUint(it.I, 10, 64); err == nil {
		return int64(u)
	}
	return 0
}

func Int64() int64   { return nextInt() }
func Int() int       { return int(nextInt()) }
func Int32() int32   { return int32(nextInt()) }
func Uint64() uint64 { return uint64(nextInt()) }
func Byte() byte     { return byte(nextInt()) }
func Bool() bool     { return next().B }

// IntRange returns an arbitrary value in [lo, hi].
func IntRange(lo, hi int) int { return int(nextInt()) }

func Float64() float64 {
	it := next()
	if it.I != "" {
		if u, err := strconv.ParseUint(it.I, 16, 64); err == nil {
			return math.Float64frombits(u)
		}
	}
	return it.F
}

// Choice returns an arbitrary value in [0, n); gosym forks over all of them.
func Choice(n int) int { return int(nextInt()) }

// Len returns an arbitrary length in [0, max]; gosym forks over all of them.
func Len(max int) int { return int(nextInt()) }

func Bytes(n int) []byte {
	b := make([]byte, n)
	for i := range b {
		b[i] = Byte()
	}
	return b
}

func String(n int) string { return string(Bytes(n)) }

// Assume restricts the inputs; natively a failed assumption means the replay
// vector does not follow the path the solver found.
func Assume(b bool) {
	if !b {
		endCapture()
		fmt.Println("ZZ-ASSUME-FAIL")
		os.Exit(4)
	}
}

// Assert states the property.
func Assert(b bool, msg string) {
	if !b {
		endCapture()
		fmt.Println("ZZ-ASSERT-FAIL: " + msg)
		os.Exit(3)
	}
}

// Reached marks the end of a harness (reachability witness against vacuity).
func Reached() {}

// Note records a ghost annotation.
func Note(s string) {
	if os.Getenv("VERIF_REPLAY") != "" {
		fmt.Printf("ZZ-NOTE: %q\n", s)
	}
}

// Symbolic reports whether the harness runs under gosym.
func Symbolic() bool { return false }

// IntStr is the decimal rendering of v (opaque under gosym until inspected).
func IntStr(v int64) string { return strconv.FormatInt(v, 10) }

// FloatStr is the shortest decimal rendering of f (opaque under gosym).
func FloatStr(f float64) string { return strconv.FormatFloat(f, 'f', -1, 64) }

// AbstractFloatText lets gosym abstract the text of a symbolic float to its
// shape when its bytes are inspected (crash/shape properties only).
func AbstractFloatText(on bool) {}

// AbstractFloatArith makes + - * / on symbolic float64 operands return an
// arbitrary float64 (one per distinct operand pair) under gosym: for
// properties that do not depend on the numeric value (crashes, shapes).
func AbstractFloatArith(on bool) {}

// OpaqueParseFloat makes strconv.ParseFloat of symbolic bytes return an
// arbitrary (value, ok|error) pair under gosym (strconv itself is trusted).
func OpaqueParseFloat(on bool) {}

// Concurrent switches gosym to scheduling mode (tier B): goroutines are
// interleaved at visible operations (level 1: channels, select, locks,
// WaitGroup, go; level 2: also sync/atomic), with at most `preemptions`
// preemptive switches and `timers` firing time.After calls per path.
// Natively a no-op (the Go scheduler runs the goroutines).
func Concurrent(level, preemptions, timers int) {}

// RaceMonitor turns on gosym's happens-before monitor (after Concurrent):
// unordered conflicting accesses of two goroutines are reported as a
// violation of kind "race". Natively the replay runs under `go test -race`.
func RaceMonitor(on bool) {}

// Yield is a visible operation of the harness itself: under gosym another
// goroutine may run here; natively the goroutine pauses briefly so that an
// overlap the code allows actually happens.
func Yield() {
	if os.Getenv("VERIF_REPLAY") != "" {
		time.Sleep(30 * time.Millisecond)
	}
}

// BoundedChans: under gosym (sequential mode: go statements run to
// completion) a send on a full buffered channel is a deadlock from here on.
func BoundedChans(on bool) {}

// SplitDiv makes gosym decide a quotient of non-negative operands with a
// symbolic divisor by case split (q = k iff k*y <= x < (k+1)*y, linear) for
// k up to a cap, instead of the non-linear div term.
func SplitDiv(on bool) {}

// LoopBound is the unwinding bound for loops whose exit test is symbolic:
// under gosym a path on which one branch instruction is decided
// symbolically more than k times is cut and counted as outside the claim.
func LoopBound(k int) {}

// MapOrder asks gosym to fork over map iteration orders from here on.
func MapOrder(on bool) {}

// ClockAdvance: time passes. Under gosym the clock is an arbitrary
// non-decreasing sequence anyway (no-op); natively the replay waits so that
// the wall clock really shows a later second.
func ClockAdvance() {
	if os.Getenv("VERIF_REPLAY") != "" {
		time.Sleep(1100 * time.Millisecond)
	}
}

// CaptureStdout starts (or restarts) recording what the program writes to
// os.Stdout; Stdout returns what was written since. Under gosym the record is
// the ghost output trace; natively os.Stdout is pointed at a scratch file.
var (
	realStdout = os.Stdout
	capFile    *os.File
)

func CaptureStdout() {
	if capFile != nil {
		capFile.Close()
		os.Remove(capFile.Name())
	}
	f, err := os.CreateTemp("", "zzcap")
	if err != nil {
		fmt.Fprintln(realStdout, "ZZ-REPLAY-ERROR: cannot capture stdout:", err)
		os.Exit(5)
	}
	capFile = f
	os.Stdout = f
}

func Stdout() string {
	if capFile == nil {
		return ""
	}
	data, _ := os.ReadFile(capFile.Name())
	return string(data)
}

func endCapture() {
	if capFile != nil {
		os.Stdout = realStdout
		capFile.Close()
		os.Remove(capFile.Name())
		capFile = nil
	}
}

// Done is called by the replay driver after the harness returned normally.
func Done() {
	endCapture()
	fmt.Println("ZZ-REPLAY-PASS")
}
