package batchers

const (
	zzStream = 5
	zzBatch  = 3
)
