package batchers

const (
	zzStream = 6
	zzBatch  = 3
)
