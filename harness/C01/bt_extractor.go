package extractor

const (
	zzLine       = 3
	zzBatchLines = 2
)
