package extractor

const (
	zzLine       = 2
	zzBatchLines = 2
)
