package extractor

import (
	"rare/pkg/expressions"
	"rare/pkg/expressions/funclib"
	"rare/pkg/matchers"

	zz "rare/pkg/zzverif"
)

var zzHarnesses = map[string]func(){"H01Classify": H01Classify, "H01Truthy": H01Truthy, "H01Worker": H01Worker}

// zzMatcher: an arbitrary matcher obeying the contract of FindSubmatchIndex:
// nil (no match) or pairs with -1,-1 (group did not participate) or 0 <= s <= e <= len(line)
type zzMatcher struct {
	groups int
	names  map[string]int
}

func (m *zzMatcher) FindSubmatchIndex(b []byte) []int {
	if zz.Bool() {
		return nil
	}
	idx := make([]int, 2*m.groups)
	idx[0], idx[1] = 0, len(b)
	for g := 1; g < m.groups; g++ {
		if zz.Bool() {
			idx[2*g], idx[2*g+1] = -1, -1
			continue
		}
		s := zz.Choice(len(b) + 1)
		e := s + zz.Choice(len(b)-s+1)
		idx[2*g], idx[2*g+1] = s, e
	}
	return idx
}
func (m *zzMatcher) SubexpNameTable() map[string]int { return m.names }

func zzBlank(s string) bool {
	for _, r := range s {
		switch {
		case r == ' ' || r == '\t' || r == '\n' || r == '\r' || r == '\v' || r == '\f' || r == 0x85 || r == 0xa0:
		case r == 0x1680 || (r >= 0x2000 && r <= 0x200a) || r == 0x2028 || r == 0x2029 || r == 0x202f || r == 0x205f || r == 0x3000:
			// the rest of Unicode's White_Space property (three-byte runes)
		default:
			return false
		}
	}
	return true
}

func zzCompile(t string) *expressions.CompiledKeyBuilder {
	kb, err := funclib.NewKeyBuilder().Compile(t)
	zz.Assert(err == nil, "template rejected")
	return kb
}

func zzGroup(line []byte, idx []int, g int) string {
	if 2*g+1 >= len(idx) || idx[2*g] < 0 {
		return ""
	}
	return string(line[idx[2*g]:idx[2*g+1]])
}

// H01Classify (one step from arbitrary counters): a line is counted as read
// once and lands in exactly one class - matched (key non-empty, not ignored),
// ignored (an ignore expression is truthy, or the key is empty) or unmatched
// (the matcher found nothing) - so read = matched + ignored + unmatched for
// histories of any length. Real key builder ({1}) and ignore set ({2}).
func H01Classify() {
	line := zz.Bytes(zz.Len(zzLine))
	for _, c := range line {
		zz.Assume(c < 0x80) // whitespace classes of multi-byte runes: H01Truthy
	}
	m := &zzMatcher{groups: 3}
	e := &Extractor{keyBuilder: zzCompile("{1}"), readLines: zz.Uint64(), matchedLines: zz.Uint64(), ignoredLines: zz.Uint64()}
	zz.Assume(e.readLines < 1<<62 && e.matchedLines < 1<<62 && e.ignoredLines < 1<<62)
	if zz.Bool() {
		ig, err := NewIgnoreExpressions("{2}")
		zz.Assert(err == nil, "ignore expression rejected")
		e.ignore = ig
	}
	r0, m0, i0 := e.readLines, e.matchedLines, e.ignoredLines
	si := extractorInstance{Extractor: e, matcher: zzWrap{m}, context: &SliceSpaceExpressionContext{}}
	lineNum := zz.Uint64()
	match, ok := si.processLineSync("src", lineNum, line)
	idx := si.lastIdx()
	zz.Assert(e.readLines == r0+1, "a line is not counted as read exactly once")
	switch {
	case idx == nil:
		zz.Assert(!ok && e.matchedLines == m0 && e.ignoredLines == i0, "an unmatched line is counted as matched or ignored")
	case e.ignore != nil && !zzBlank(zzGroup(line, idx, 2)):
		zz.Assert(!ok && e.matchedLines == m0 && e.ignoredLines == i0+1, "a line whose ignore expression is truthy is not counted as ignored (only)")
	case zzGroup(line, idx, 1) == "":
		zz.Assert(!ok && e.matchedLines == m0 && e.ignoredLines == i0+1, "a line with an empty key is not counted as ignored (only)")
	default:
		zz.Assert(ok && e.matchedLines == m0+1 && e.ignoredLines == i0, "a line with a non-empty key is not counted as matched (only)")
		zz.Assert(match.Extracted == zzGroup(line, idx, 1), "the emitted key is not the extract expression's value")
		zz.Assert(match.LineNumber == lineNum && match.Source == "src" && match.Line == string(line), "the match does not carry its source, line number and text")
	}
	zz.Reached()
}

// zzWrap records the indices the matcher returned
type zzWrap struct{ m *zzMatcher }

var zzLastIdx []int

func (w zzWrap) FindSubmatchIndex(b []byte) []int {
	zzLastIdx = w.m.FindSubmatchIndex(b)
	return zzLastIdx
}
func (w zzWrap) SubexpNameTable() map[string]int { return w.m.names }
func (s *extractorInstance) lastIdx() []int      { return zzLastIdx }

// H01Truthy: an ignore set of k expressions ignores a match iff one of them
// evaluates to text with a non-whitespace character.
func H01Truthy() {
	k := 1 + zz.Choice(2)
	vals := make([]string, k)
	tmpl := []string{"{1}", "{2}"}
	ig, err := NewIgnoreExpressions(tmpl[:k]...)
	zz.Assert(err == nil, "ignore expressions rejected")
	any := false
	for i := range vals {
		vals[i] = zz.String(zz.Len(zzLine))
		if !zzBlank(vals[i]) {
			any = true
		}
	}
	ctx := &expressions.KeyBuilderContextArray{Elements: append([]string{""}, vals...)}
	zz.Assert(ig.IgnoreMatch(ctx) == any, "ignore set: truthiness is not 'some result has a non-whitespace character'")
	empty, _ := NewIgnoreExpressions()
	if empty != nil {
		zz.Assert(!empty.IgnoreMatch(ctx), "an empty ignore set ignores")
	}
	zz.Reached()
}

// H01Worker: the real extractor (New + worker loop) over 1..2 batches of a closed input channel
// (workers run to completion one after the other): every line of every batch is processed
// once, matches come out in input order with LineNumber = BatchStart + index
// and the batch's source, and the counters equal the true counts.
func H01Worker() {
	m := &zzMatcher{groups: 2}
	in := make(chan InputBatch, 4)
	nb := 1 + zz.Choice(2)
	type exp struct {
		src  string
		num  uint64
		line []byte
	}
	var all []exp
	for b := 0; b < nb; b++ {
		nl := 1 + zz.Choice(zzBatchLines)
		batch := InputBatch{Source: []string{"f1", "f2"}[zz.Choice(2)], BatchStart: zz.Uint64()}
		zz.Assume(batch.BatchStart < 1<<62)
		for i := 0; i < nl; i++ {
			line := zz.Bytes(1)
			batch.Batch = append(batch.Batch, line)
			all = append(all, exp{batch.Source, batch.BatchStart + uint64(i), line})
		}
		in <- batch
	}
	close(in)
	// the public constructor: starts the workers (run to completion here) and closes the output when they are done
	e, err := New(in, &Config{Matcher: zzFact{m}, Extract: "{1}", Workers: 1 + zz.Choice(2)})
	zz.Assert(err == nil, "extractor rejected")
	pos := 0
	var matched uint64
	for mb := range e.readChan {
		zz.Assert(len(mb) > 0, "empty match batch emitted")
		for _, mt := range mb {
			// find the next input line this match can stand for (order preserved)
			for pos < len(all) && !(all[pos].num == mt.LineNumber && all[pos].src == mt.Source && string(all[pos].line) == mt.Line) {
				pos++
			}
			zz.Assert(pos < len(all), "a match does not correspond to an input line in input order (source, line number, text)")
			zz.Assert(mt.Extracted != "" && mt.Extracted == zzGroup(all[pos].line, mt.Indices, 1), "a match's key is not its line's extract value")
			pos++
			matched++
		}
	}
	zz.Assert(e.readLines == uint64(len(all)), "read counter is not the number of lines in the batches")
	zz.Assert(e.matchedLines == matched, "matched counter is not the number of emitted matches")
	zz.Assert(e.matchedLines+e.ignoredLines <= e.readLines, "more lines classified than read")
	zz.Reached()
}

type zzFact struct{ m *zzMatcher }

func (f zzFact) CreateInstance() matchers.Matcher { return zzWrap{f.m} }
