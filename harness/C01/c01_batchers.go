package batchers

import (
	"errors"
	"io"
	"rare/pkg/extractor"
	"time"

	zz "rare/pkg/zzverif"
)

var zzHarnesses = map[string]func(){"H01Batch": H01Batch}

var zzErrX = errors.New("zz read error")

// zzReader delivers the stream in arbitrary chunks, then EOF or an error.
type zzReader struct {
	data    []byte
	pos     int
	failure error
	done    bool
	timed   bool
}

func (r *zzReader) Read(p []byte) (int, error) {
	zz.Assert(!r.done, "reader called again after it returned an error")
	if r.timed {
		zz.ClockAdvance() // time passes between reads (natively: the replay really waits past the flush timeout)
	}
	remaining := len(r.data) - r.pos
	n := 1 + zz.Choice(remaining+1)
	if n > remaining {
		n = remaining
	}
	copy(p, r.data[r.pos:r.pos+n])
	r.pos += n
	if r.pos == len(r.data) {
		r.done = true
		return n, r.failure
	}
	return n, nil
}

func zzRefLines(data []byte) [][]byte {
	var out [][]byte
	start := 0
	for i := 0; i < len(data); i++ {
		if data[i] == '\n' {
			line := data[start:i]
			if len(line) > 0 && line[len(line)-1] == '\r' {
				line = line[:len(line)-1]
			}
			out = append(out, line)
			start = i + 1
		}
	}
	if start < len(data) {
		out = append(out, data[start:])
	}
	return out
}

// H01Batch: the real reader-to-batch loops (plain and time-flushed) over any
// stream: the batches, concatenated, are exactly the stream's lines - each
// once, in order; no batch is empty or larger than the batch size; without
// the timer every batch but the last is full; BatchStart is the 1-based
// number of the batch's first line; bytes are accounted; a read error is
// counted once.
func H01Batch() {
	n := zz.Len(zzStream)
	data := zz.Bytes(n)
	orig := append([]byte(nil), data...)
	rd := &zzReader{data: data, failure: io.EOF}
	if zz.Bool() {
		rd.failure = zzErrX
	}
	batchSize := 1 + zz.Choice(zzBatch)
	timed := zz.Bool()
	rd.timed = timed
	b := newBatcher(100)
	if timed {
		b.syncReaderToBatcherWithTimeFlush("src", rd, batchSize, AutoFlushTimeout)
	} else {
		b.syncReaderToBatcher("src", rd, batchSize)
	}
	b.close()
	want := zzRefLines(orig)
	seen := 0
	var next uint64 = 1
	var last extractor.InputBatch
	nb := 0
	for batch := range b.BatchChan() {
		if nb > 0 && !timed {
			zz.Assert(len(last.Batch) == batchSize, "a batch other than the last is not full")
		}
		nb++
		zz.Assert(len(batch.Batch) > 0, "empty batch")
		zz.Assert(len(batch.Batch) <= batchSize, "batch larger than the batch size")
		zz.Assert(batch.Source == "src", "batch carries another source name")
		zz.Assert(batch.BatchStart == next, "BatchStart is not the 1-based line number of the batch's first line")
		for _, line := range batch.Batch {
			zz.Assert(seen < len(want), "more lines batched than the stream holds")
			zz.Assert(len(line) == len(want[seen]), "a batched line differs from the stream's line (length)")
			for i := range line {
				zz.Assert(line[i] == want[seen][i], "a batched line differs from the stream's line")
			}
			seen++
		}
		next += uint64(len(batch.Batch))
		last = batch
	}
	zz.Assert(seen == len(want), "lines lost: fewer lines batched than the stream holds")
	zz.Assert(b.ReadBytes() == uint64(len(orig)) || seen == 0, "read-bytes accounting differs from the bytes delivered in batches")
	if rd.failure == zzErrX {
		zz.Assert(b.ReadErrors() == 1, "read error not counted exactly once")
	} else {
		zz.Assert(b.ReadErrors() == 0, "EOF counted as a read error")
	}
	_ = time.Second
	zz.Reached()
}
