package batchers

const (
	zzStream = 4
	zzBatch  = 2
)
