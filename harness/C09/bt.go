package expressions

const (
	zzMaxText  = 5
	zzMaxSplit = 7
	zzMaxLit   = 2
	zzMaxDepth = 2
	zzMaxKids  = 3
	zzMaxErr   = 7
)
