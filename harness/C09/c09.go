package expressions

import (
	zz "rare/pkg/zzverif"
)

var zzHarnesses = map[string]func(){"H09Escape": H09Escape, "H09Split": H09Split, "H09SplitUni": H09SplitUni, "H09Tree": H09Tree, "H09Errors": H09Errors}

// zzText: a string of 0..n characters drawn from the syntactic classes of the
// template language (braces, backslash, quote, blank, the escape letters,
// control characters, a digit, a letter) plus one two-byte rune.
func zzText(n int) string {
	k := zz.Len(n)
	s := ""
	for i := 0; i < k; i++ {
		if zz.Choice(2) == 1 {
			s += "é"
			continue
		}
		c := zz.Byte()
		zz.Assume(c < 0x80)
		s += string([]byte{c})
	}
	return s
}

// zzPlain: text that needs no escaping inside a call argument (letters,
// digits, blanks, the two-byte rune): escapes inside statements pass through
// several unescaping rounds and are outside the claim.
func zzPlain(n int) string {
	k := zz.Len(n)
	s := ""
	for i := 0; i < k; i++ {
		if zz.Choice(2) == 1 {
			s += "é"
			continue
		}
		c := zz.Byte()
		zz.Assume(c < 0x80 && c != '{' && c != '}' && c != '\\' && c != '"')
		s += string([]byte{c})
	}
	return s
}

// zzEscape is the documented escaped rendering of s for literal context:
// a backslash in front of { } and \ ; the three control characters may be
// written as \n \t \r (chosen per occurrence).
func zzEscape(s string) string {
	out := ""
	for i := 0; i < len(s); i++ {
		c := s[i]
		switch {
		case c == '{' || c == '}' || c == '\\':
			out += "\\" + string([]byte{c})
		case c == '\n' && zz.Choice(2) == 0:
			out += "\\n"
		case c == '\t' && zz.Choice(2) == 0:
			out += "\\t"
		case c == '\r' && zz.Choice(2) == 0:
			out += "\\r"
		default:
			out += string([]byte{c})
		}
	}
	return out
}

// H09Escape: for any string s the escaped rendering compiles without error
// and evaluates to s (optimisation on and off).
func H09Escape() {
	s := zzText(zzMaxText)
	t := zzEscape(s)
	kb := NewKeyBuilderEx(zz.Choice(2) == 0)
	c, errs := kb.Compile(t)
	zz.Assert(errs == nil && c != nil, "escaped literal text does not compile")
	got := c.BuildKey(&KeyBuilderContextArray{Elements: []string{"x"}})
	zz.Assert(got == s, "escaped rendering of s does not evaluate to s")
	zz.Reached()
}

// zzRefSplit is the documented argument splitting: blanks separate arguments
// outside quotes and braces, a quoted run is one argument even when empty, a
// backslash makes the next character ordinary, braces nest and keep their
// text (including inner quotes).
func zzRefSplit(s string) []string {
	a, _ := zzRefSplit2(s)
	return a
}

func zzRefSplit2(s string) ([]string, bool) {
	nested := true
	var args []string
	cur := ""
	has := false // a bare argument is in progress
	depth := 0
	quoted := false
	i := 0
	for i < len(s) {
		c := s[i]
		switch {
		case c == '\\':
			if i+1 < len(s) {
				cur += string([]byte{s[i+1]})
				has = true
				i++
			}
		case c == '"':
			if depth > 0 {
				cur += "\""
				has = true
				quoted = !quoted
			} else if quoted {
				quoted = false
				args = append(args, cur)
				cur, has = "", false
			} else {
				quoted = true
			}
		case c == '{' && !quoted:
			depth++
			cur += "{"
			has = true
		case c == '}' && !quoted:
			depth--
			if depth < 0 {
				nested = false
			}
			cur += "}"
			has = true
		case (c == ' ' || (c >= '\t' && c <= '\r')) && !quoted && depth == 0:
			if has {
				args = append(args, cur)
				cur, has = "", false
			}
		default:
			cur += string([]byte{c})
			has = true
		}
		i++
	}
	if has {
		args = append(args, cur)
	}
	return args, nested
}

// H09Split: the real splitter agrees with the documented splitting on every
// string over { } " \ blank tab a.
func H09Split() {
	n := zz.Len(zzMaxSplit)
	b := zz.Bytes(n)
	for i := range b {
		c := b[i]
		zz.Assume(c == '{' || c == '}' || c == '"' || c == '\\' || c == ' ' || (c >= '\t' && c <= '\r') || c == 'a')
	}
	s := string(b)
	got := splitTokenizedArguments(s)
	want, nested := zzRefSplit2(s)
	zz.Assume(nested) // a closing brace below depth 0 is not part of the documented syntax
	zz.Assert(len(got) == len(want), "argument count differs from the documented splitting")
	for i := range got {
		zz.Assert(got[i] == want[i], "argument text differs from the documented splitting")
	}
	zz.Reached()
}

// H09SplitUni: white space beyond ASCII separates arguments too.
func H09SplitUni() {
	sep := []string{"\u0085", "\u00a0", "\u2003", "\u3000", "\u2028", "\r\n", "\v", "\f"}[zz.Choice(8)]
	a, b := zz.String(1), zz.String(1)
	zz.Assume(a[0] > ' ' && a[0] < 0x7f && a[0] != '{' && a[0] != '}' && a[0] != '"' && a[0] != '\\')
	zz.Assume(b[0] > ' ' && b[0] < 0x7f && b[0] != '{' && b[0] != '}' && b[0] != '"' && b[0] != '\\')
	got := splitTokenizedArguments(a + sep + b)
	zz.Assert(len(got) == 2 && got[0] == a && got[1] == b, "white space other than blank and tab does not separate arguments")
	got = splitTokenizedArguments("\"" + a + sep + b + "\"")
	zz.Assert(len(got) == 1 && got[0] == a+sep+b, "quoted white space splits an argument")
	zz.Reached()
}

// ---- expression trees ----

type zzNode struct {
	kind int // 0 literal, 1 group index, 2 named key, 3 call cat, 4 call first
	lit  string
	idx  int
	kids []*zzNode
}

func zzEval(n *zzNode, c KeyBuilderContext) string {
	switch n.kind {
	case 0:
		return n.lit
	case 1:
		return c.GetMatch(n.idx)
	case 2:
		return c.GetKey("k")
	case 3:
		s := ""
		for i, k := range n.kids {
			if i > 0 {
				s += "|"
			}
			s += zzEval(k, c)
		}
		return s
	}
	for _, k := range n.kids {
		if v := zzEval(k, c); v != "" {
			return v
		}
	}
	return ""
}

func zzBlank() string {
	return []string{" ", "\t", "  "}[zz.Choice(3)]
}

// zzQuoteArg prints literal text as one quoted call argument: first the
// literal-context escaping (the argument is compiled as a template of its
// own), then the splitter-level escaping of backslash and quote.
func zzQuoteArg(lit string) string {
	return "\"" + lit + "\""
}

func zzPrint(n *zzNode, top bool) string {
	switch n.kind {
	case 0:
		if top {
			return zzEscape(n.lit)
		}
		return zzQuoteArg(n.lit)
	case 1:
		if n.idx == 0 {
			return "{0}"
		}
		return "{1}"
	case 2:
		return "{k}"
	}
	s := "{cat"
	if n.kind == 4 {
		s = "{first"
	}
	for _, k := range n.kids {
		s += zzBlank() + zzPrint(k, false)
	}
	return s + "}"
}

func zzLeaf(top bool) *zzNode {
	switch zz.Choice(3) {
	case 0:
		if !top {
			return &zzNode{kind: 0, lit: zzPlain(zzMaxLit)}
		}
		return &zzNode{kind: 0, lit: zzText(zzMaxLit)}
	case 1:
		return &zzNode{kind: 1, idx: zz.Choice(2)}
	}
	return &zzNode{kind: 2}
}

func zzTree(depth int, top bool) *zzNode {
	if depth == 0 || zz.Choice(2) == 0 {
		return zzLeaf(top)
	}
	n := &zzNode{kind: 3 + zz.Choice(2)}
	na := 2 + zz.Choice(zzMaxKids-1)
	for i := 0; i < na; i++ {
		n.kids = append(n.kids, zzTree(depth-1, false))
	}
	return n
}

func zzFuncs(kb *KeyBuilder) {
	kb.Func("cat", func(args []KeyBuilderStage) (KeyBuilderStage, error) {
		return func(c KeyBuilderContext) string {
			s := ""
			for i, a := range args {
				if i > 0 {
					s += "|"
				}
				s += a(c)
			}
			return s
		}, nil
	})
	kb.Func("first", func(args []KeyBuilderStage) (KeyBuilderStage, error) {
		return func(c KeyBuilderContext) string {
			for _, a := range args {
				if v := a(c); v != "" {
					return v
				}
			}
			return ""
		}, nil
	})
}

// H09Tree: a sequence of expression trees printed with the documented syntax
// (symbolic literal characters, blank runs and nesting) evaluates exactly as
// the trees dictate.
func H09Tree() {
	var nodes []*zzNode
	text := ""
	if zz.Choice(2) == 1 { // literal text in front of the statement
		n := &zzNode{kind: 0, lit: zzText(1)}
		nodes = append(nodes, n)
		text += zzPrint(n, true)
	}
	n := zzTree(zzMaxDepth, true)
	if !(n.kind == 0 && len(nodes) > 0) {
		nodes = append(nodes, n)
		text += zzPrint(n, true)
	}
	kb := NewKeyBuilderEx(zz.Choice(2) == 0)
	zzFuncs(kb)
	if !zz.Symbolic() {
		zz.Note(text)
	}
	c, errs := kb.Compile(text)
	zz.Assert(errs == nil && c != nil, "printed tree does not compile")
	ctx := &KeyBuilderContextArray{Elements: []string{zz.String(1), zz.String(1)}, Keys: map[string]string{"k": zz.String(1)}}
	want := ""
	for _, n := range nodes {
		want += zzEval(n, ctx)
	}
	zz.Assert(c.BuildKey(ctx) == want, "compiled template does not evaluate as its tree")
	zz.Reached()
}

// H09Errors: unterminated statements, empty statements and unknown functions
// are compile errors (and nothing else is reported as one of them).
func H09Errors() {
	n := zz.Len(zzMaxErr)
	b := zz.Bytes(n)
	for i := range b {
		c := b[i]
		zz.Assume(c == '{' || c == '}' || c == '\\' || c == ' ' || c == 'a' || c == '1')
	}
	t := string(b)
	kb := NewKeyBuilderEx(zz.Choice(2) == 0)
	zzFuncs(kb)
	c, errs := kb.Compile(t)
	zz.Assert(c != nil, "Compile returned no builder")
	// reference scan: brace depth at the end, and top-level statements
	depth := 0
	empty, unknown := false, false
	start := -1
	for i := 0; i < len(t); i++ {
		switch {
		case t[i] == '\\':
			i++
		case t[i] == '{':
			if depth == 0 {
				start = i + 1
			}
			depth++
		case t[i] == '}' && depth > 0:
			depth--
			if depth == 0 {
				args := zzRefSplit(t[start:i])
				if len(args) == 0 {
					empty = true
				}
				if len(args) > 1 && args[0] != "cat" && args[0] != "first" {
					unknown = true
				}
			}
		}
	}
	isErr := func(e error) bool { return errs != nil && errs.Is(e) }
	zz.Assert(isErr(ErrorUnterminated) == (depth != 0), "unterminated statement not reported exactly when braces stay open")
	for i := 0; i < len(t); i++ {
		if t[i] == '\\' { // escapes inside statements go through several unescaping rounds: only the brace balance is claimed
			zz.Reached()
			return
		}
	}
	zz.Assert(!empty || isErr(ErrorEmptyStatement), "empty statement not reported")
	zz.Assert(!unknown || isErr(ErrorMissingFunction), "unknown function not reported")
	if depth == 0 && !empty && !unknown && zzNoNested(t) {
		zz.Assert(errs == nil, "a well-formed template reported errors")
	}
	zz.Reached()
}

// zzNoNested: no statement contains a nested statement (nested ones may carry their own errors).
func zzNoNested(t string) bool {
	depth := 0
	for i := 0; i < len(t); i++ {
		switch {
		case t[i] == '\\':
			i++
		case t[i] == '{':
			depth++
			if depth > 1 {
				return false
			}
		case t[i] == '}' && depth > 0:
			depth--
		}
	}
	return true
}
