package expressions

const (
	zzMaxText  = 4
	zzMaxSplit = 6
	zzMaxLit   = 1
	zzMaxDepth = 1
	zzMaxKids  = 2
	zzMaxErr   = 5
)
