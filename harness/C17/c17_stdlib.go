package stdlib

import (
	. "rare/pkg/expressions" //lint:ignore ST1001 same as the package
	zz "rare/pkg/zzverif"
)

var zzHarnesses = map[string]func(){"H17SplitJoin": H17SplitJoin, "H17Index": H17Index, "H17Slice": H17Slice,
	"H17Map": H17Map, "H17Filter": H17Filter, "H17Reduce": H17Reduce, "H17Range": H17Range, "H17For": H17For, "H17Concat": H17Concat, "H17Nested": H17Nested, "H17Par": H17Par}

const zzSep = "\x00"

type zzCtx struct {
	vals []string
	key  string
}

func (c *zzCtx) GetMatch(i int) string {
	if i >= 0 && i < len(c.vals) {
		return c.vals[i]
	}
	return ""
}

func (c *zzCtx) GetKey(k string) string {
	if k == "k" {
		return c.key
	}
	return ErrorArgName
}

func zzArg(i int) KeyBuilderStage {
	return func(c KeyBuilderContext) string { return c.GetMatch(i) }
}

func zzLit(s string) KeyBuilderStage {
	return func(c KeyBuilderContext) string { return s }
}

func zzMust(st KeyBuilderStage, err error) KeyBuilderStage {
	zz.Assert(err == nil && st != nil, "stage constructor rejected admissible arguments")
	return st
}

// zzElem: an arbitrary NUL-free string of 0..max bytes.
func zzElem(max int) string {
	s := zz.String(zz.Len(max))
	for i := 0; i < len(s); i++ {
		zz.Assume(s[i] != 0)
	}
	return s
}

// zzList: 0..n elements; the one-element list holding "" is excluded (it is
// indistinguishable from the empty list in the NUL-separated encoding).
func zzList(n, emax int) []string {
	k := zz.Len(n)
	l := make([]string, k)
	for i := range l {
		l[i] = zzElem(emax)
	}
	if k == 1 {
		zz.Assume(l[0] != "")
	}
	return l
}

func zzJoin(l []string, sep string) string {
	s := ""
	for i, e := range l {
		if i > 0 {
			s += sep
		}
		s += e
	}
	return s
}

func zzIndexStr(s, sub string) int {
	for i := 0; i+len(sub) <= len(s); i++ {
		if s[i:i+len(sub)] == sub {
			return i
		}
	}
	return -1
}

func zzSplitStr(s, d string) []string {
	var out []string
	for {
		i := zzIndexStr(s, d)
		if i < 0 {
			return append(out, s)
		}
		out = append(out, s[:i])
		s = s[i+len(d):]
	}
}

// H17SplitJoin: @split and @join are inverse for any non-empty delimiter.
func H17SplitJoin() {
	d := zzElem2(1, zzMaxDelim)
	split := zzMust(kfArraySplit([]KeyBuilderStage{zzArg(0), zzLit(d)}))
	join := zzMust(kfArrayJoin([]KeyBuilderStage{zzArg(0), zzLit(d)}))
	if zz.Choice(2) == 0 {
		s := zzElem(zzMaxStr)
		arr := split(&zzCtx{vals: []string{s}})
		zz.Assert(arr == zzJoin(zzSplitStr(s, d), zzSep), "@split does not split on every occurrence of the delimiter")
		back := join(&zzCtx{vals: []string{arr}})
		zz.Assert(back == s, "@join of @split is not the original string")
	} else {
		l := zzList(3, zzMaxElem)
		for _, e := range l {
			zz.Assume(zzIndexStr(e, d) < 0)
		}
		zz.Assume(zzIndexStr(zzJoin(l, d), d) < 0 || len(l) > 1)
		arr := zzJoin(l, zzSep)
		js := join(&zzCtx{vals: []string{arr}})
		zz.Assert(js == zzJoin(l, d), "@join does not put the delimiter between elements")
		if zzSameList(zzSplitStr(js, d), l) || len(l) == 0 { // the joined text must not create new delimiter occurrences
			back := split(&zzCtx{vals: []string{js}})
			zz.Assert(back == arr, "@split of @join is not the original list")
		}
	}
	zz.Reached()
}

func zzSameList(a, b []string) bool {
	if len(a) != len(b) {
		return false
	}
	for i := range a {
		if a[i] != b[i] {
			return false
		}
	}
	return true
}

func zzElem2(min, max int) string {
	s := zz.String(min + zz.Len(max-min))
	for i := 0; i < len(s); i++ {
		zz.Assume(s[i] != 0)
	}
	return s
}

// H17Index: @len, @select, @in.
func H17Index() {
	l := zzList(3, zzMaxElem)
	arr := zzJoin(l, zzSep)
	ctx := &zzCtx{vals: []string{arr}}
	n := len(l)

	ln := zzMust(kfArrayLen([]KeyBuilderStage{zzArg(0)}))
	zz.Assert(ln(ctx) == zz.IntStr(int64(n)), "@len is not the number of elements")

	idx := zz.Int()
	sel := zzMust(kfArraySelect([]KeyBuilderStage{zzArg(0), zzLit(zz.IntStr(int64(idx)))}))
	got := sel(ctx)
	j := idx
	if j < 0 {
		j += n
	}
	want := ""
	if j >= 0 && j < n {
		want = l[j]
	}
	zz.Assert(got == want, "@select does not return the indexed element (negative from the end, out of range empty)")

	probe := zzElem(zzMaxElem)
	in := zzMust(kfArrayIn([]KeyBuilderStage{zzArg(1), zzLit(arr)}))
	isIn := in(&zzCtx{vals: []string{"", probe}})
	member := false
	for _, e := range l {
		if e == probe {
			member = true
		}
	}
	if n == 0 {
		member = probe == "" // the empty list is encoded as "", which @in reads as [""]: excluded below
	}
	if n > 0 {
		zz.Assert((isIn == TruthyVal) == member && (isIn == TruthyVal || isIn == FalsyVal), "@in is not membership")
	}
	zz.Reached()
}

// H17Slice: @slice returns the indexed elements as a well-formed list.
func H17Slice() {
	l := zzList(3, 1)
	arr := zzJoin(l, zzSep)
	ctx := &zzCtx{vals: []string{arr}}
	n := len(l)
	start := zz.IntRange(-5, 5)
	var st KeyBuilderStage
	hasLen := zz.Choice(2) == 1
	cnt := -1
	if hasLen {
		cnt = zz.IntRange(0, 4)
		st = zzMust(kfArraySlice([]KeyBuilderStage{zzArg(0), zzLit(zz.IntStr(int64(start))), zzLit(zz.IntStr(int64(cnt)))}))
	} else {
		st = zzMust(kfArraySlice([]KeyBuilderStage{zzArg(0), zzLit(zz.IntStr(int64(start)))}))
	}
	got := st(ctx)
	b := start
	if b < 0 {
		b += n
	}
	if b < 0 {
		b = 0
	}
	e := n
	if hasLen && b+cnt < n {
		e = b + cnt
	}
	var want []string
	for i := b; i < e; i++ {
		want = append(want, l[i])
	}
	zz.Assert(got == zzJoin(want, zzSep), "@slice is not the list of the selected elements")
	zz.Reached()
}

// zzRecorder is a sub-expression stub: it records what {0} {1} and the
// named key k read as, and answers from a prepared list.
type zzRecorder struct {
	v0, v1, keys []string
	answers      []string
	calls        int
}

func (r *zzRecorder) stage() KeyBuilderStage {
	return func(c KeyBuilderContext) string {
		r.v0 = append(r.v0, c.GetMatch(0))
		r.v1 = append(r.v1, c.GetMatch(1))
		r.keys = append(r.keys, c.GetKey("k"))
		zz.Assert(c.GetMatch(2) == "" && c.GetMatch(-1) == "", "sub-context exposes groups other than {0} {1}")
		a := ""
		if r.calls < len(r.answers) {
			a = r.answers[r.calls]
		}
		r.calls++
		return a
	}
}

func zzElemsNonEmptyUnambiguous(l []string) {
	if len(l) == 0 {
		return
	}
}

// H17Map: the sub-expression sees each element in order as {0}, named keys of the enclosing match.
func H17Map() {
	l := zzList(3, zzMaxElem)
	zz.Assume(len(l) > 0)
	arr := zzJoin(l, zzSep)
	key := zzElem(1)
	rec := &zzRecorder{}
	for range l {
		rec.answers = append(rec.answers, zzElem(1))
	}
	st := zzMust(kfArrayMap([]KeyBuilderStage{zzArg(0), rec.stage()}))
	got := st(&zzCtx{vals: []string{arr}, key: key})
	zz.Assert(rec.calls == len(l), "@map does not evaluate once per element")
	for i := range l {
		zz.Assert(rec.v0[i] == l[i] && rec.v1[i] == "" && rec.keys[i] == key, "@map binds {0}/{1}/named keys wrongly")
	}
	zz.Assert(got == zzJoin(rec.answers, zzSep), "@map result is not the list of mapped elements")
	zz.Reached()
}

// H17Filter keeps exactly the elements whose sub-expression is truthy.
func H17Filter() {
	l := zzList(3, zzMaxElem)
	zz.Assume(len(l) > 0)
	arr := zzJoin(l, zzSep)
	key := zzElem(1)
	rec := &zzRecorder{}
	var want []string
	for i := range l {
		if zz.Bool() {
			rec.answers = append(rec.answers, "1")
			want = append(want, l[i])
		} else {
			rec.answers = append(rec.answers, " ")
		}
	}
	st := zzMust(kfArrayFilter([]KeyBuilderStage{zzArg(0), rec.stage()}))
	got := st(&zzCtx{vals: []string{arr}, key: key})
	zz.Assert(rec.calls == len(l), "@filter does not evaluate once per element")
	for i := range l {
		zz.Assert(rec.v0[i] == l[i] && rec.keys[i] == key, "@filter binds {0}/named keys wrongly")
	}
	zz.Assert(got == zzJoin(want, zzSep), "@filter result is not the list of kept elements")
	zz.Reached()
}

// H17Reduce folds left to right with {0}=memo {1}=element.
func H17Reduce() {
	l := zzList(3, zzMaxElem)
	zz.Assume(len(l) > 0)
	arr := zzJoin(l, zzSep)
	key := zzElem(1)
	rec := &zzRecorder{}
	hasInit := zz.Choice(2) == 1
	init := ""
	if hasInit {
		init = zzElem2(1, 1)
	}
	steps := len(l) - 1
	if hasInit {
		steps = len(l)
	}
	for i := 0; i < steps; i++ {
		rec.answers = append(rec.answers, zzElem(1))
	}
	var st KeyBuilderStage
	if hasInit {
		st = zzMust(kfArrayReduce([]KeyBuilderStage{zzArg(0), rec.stage(), zzLit(init)}))
	} else {
		st = zzMust(kfArrayReduce([]KeyBuilderStage{zzArg(0), rec.stage()}))
	}
	got := st(&zzCtx{vals: []string{arr}, key: key})
	zz.Assert(rec.calls == steps, "@reduce does not evaluate once per remaining element")
	memo := init
	rest := l
	if !hasInit {
		memo = l[0]
		rest = l[1:]
	}
	for i, e := range rest {
		zz.Assert(rec.v0[i] == memo && rec.v1[i] == e && rec.keys[i] == key, "@reduce binds {0}=memo {1}=element wrongly")
		memo = rec.answers[i]
	}
	zz.Assert(got == memo, "@reduce result is not the final memo")
	zz.Reached()
}

// H17Range: @range generates exactly start, start+incr, ... before stop.
func H17Range() {
	start, stop, incr := zz.IntRange(-3, 3), zz.IntRange(-3, 3), zz.IntRange(-2, 2)
	var st KeyBuilderStage
	switch zz.Choice(3) {
	case 0:
		start, incr = 0, 1
		st = zzMust(kfArrayRange([]KeyBuilderStage{zzArg(1)}))
	case 1:
		incr = 1
		st = zzMust(kfArrayRange([]KeyBuilderStage{zzArg(0), zzArg(1)}))
	default:
		st = zzMust(kfArrayRange([]KeyBuilderStage{zzArg(0), zzArg(1), zzArg(2)}))
	}
	got := st(&zzCtx{vals: []string{zz.IntStr(int64(start)), zz.IntStr(int64(stop)), zz.IntStr(int64(incr))}})
	if incr == 0 || (incr > 0 && start > stop) || (incr < 0 && start < stop) {
		zz.Assert(got == ErrorValue, "@range with an impossible direction is not <VALUE>")
	} else {
		var want []string
		for i := start; (incr > 0 && i < stop) || (incr < 0 && i > stop); i += incr {
			want = append(want, zz.IntStr(int64(i)))
		}
		zz.Assert(got == zzJoin(want, zzSep), "@range sequence wrong")
	}
	zz.Reached()
}

// H17For: {0} current value, {1} index, named keys from the enclosing match.
func H17For() {
	n := zz.Len(3)
	key := zzElem(1)
	cont := &zzRecorder{}
	next := &zzRecorder{}
	var seq []string
	seq = append(seq, zzElem2(1, 1))
	for i := 0; i < n; i++ {
		cont.answers = append(cont.answers, "1")
		v := zzElem2(1, 1)
		next.answers = append(next.answers, v)
		seq = append(seq, v)
	}
	cont.answers = append(cont.answers, "")
	st := zzMust(kfArrayFor([]KeyBuilderStage{zzLit(seq[0]), cont.stage(), next.stage()}))
	got := st(&zzCtx{key: key})
	zz.Assert(cont.calls == n+1 && next.calls == n, "@for evaluates its sub-expressions the wrong number of times")
	for i := 0; i <= n; i++ {
		zz.Assert(cont.v0[i] == seq[i] && cont.v1[i] == zz.IntStr(int64(i)), "@for binds {0}=value {1}=index wrongly in the condition")
		zz.Assert(cont.keys[i] == key, "@for does not resolve named keys in the enclosing match")
	}
	zz.Assert(got == zzJoin(seq[:n], zzSep), "@for result is not the generated sequence")
	zz.Reached()
}

// H17Concat: {$ ..} and {@ ..} concatenate their arguments in order.
func H17Concat() {
	l := make([]string, zz.Len(3))
	var args []KeyBuilderStage
	for i := range l {
		l[i] = zzElem(zzMaxElem)
		args = append(args, zzArg(i))
	}
	for _, name := range []string{"$", "@"} {
		st, err := StandardFunctions[name](args)
		zz.Assert(err == nil, "join rejected its arguments")
		zz.Assert(st(&zzCtx{vals: l}) == zzJoin(l, zzSep), "{$ ..}/{@ ..} is not the NUL-joined argument list")
	}
	zz.Reached()
}

// H17Nested: an array helper whose sub-expression itself runs an array
// helper (both take their sub-context from the same pool): the outer
// element binding is intact after the inner helper ran, for every element.
func H17Nested() {
	l := zzList(3, zzMaxElem)
	zz.Assume(len(l) > 0)
	arr := zzJoin(l, zzSep)
	key := zzElem(1)
	innerList := zzLit("p" + zzSep + "q")
	var inner KeyBuilderStage
	switch zz.Choice(4) {
	case 0:
		inner = zzMust(kfArrayMap([]KeyBuilderStage{innerList, zzArg(0)}))
	case 1:
		inner = zzMust(kfArrayReduce([]KeyBuilderStage{innerList, zzArg(1), zzLit("i")}))
	case 2:
		inner = zzMust(kfArrayFilter([]KeyBuilderStage{innerList, zzLit("1")}))
	default:
		inner = zzMust(kfArrayMap([]KeyBuilderStage{zzArg(0), zzLit("w")})) // maps the outer element itself
	}
	var before, after, keys []string
	sub := func(c KeyBuilderContext) string {
		before = append(before, c.GetMatch(0))
		r := inner(c)
		zz.Assert(c.GetMatch(0) == l[len(after)], "nested array helper: the inner helper clobbered the outer element binding")
		after = append(after, c.GetMatch(0))
		keys = append(keys, c.GetKey("k"))
		return r
	}
	var st KeyBuilderStage
	outer := zz.Choice(3)
	switch outer {
	case 0:
		st = zzMust(kfArrayMap([]KeyBuilderStage{zzArg(0), sub}))
	case 1:
		st = zzMust(kfArrayFilter([]KeyBuilderStage{zzArg(0), sub}))
	default:
		st = zzMust(kfArrayReduce([]KeyBuilderStage{zzArg(0), func(c KeyBuilderContext) string {
			before = append(before, c.GetMatch(1))
			inner(c)
			zz.Assert(c.GetMatch(1) == l[len(after)], "nested array helper: the inner helper clobbered the outer element binding")
			after = append(after, c.GetMatch(1))
			keys = append(keys, c.GetKey("k"))
			return "m"
		}, zzLit("i")}))
	}
	st(&zzCtx{vals: []string{arr}, key: key})
	zz.Assert(len(before) == len(l) && len(after) == len(l), "nested array helper: sub-expression not evaluated once per element")
	for i := range l {
		zz.Assert(before[i] == l[i], "nested array helper: element binding wrong before the inner helper")
		zz.Assert(after[i] == l[i], "nested array helper: the inner helper clobbered the outer element binding")
		zz.Assert(keys[i] == key, "nested array helper: named key no longer resolves in the enclosing match")
	}
	zz.Reached()
}

// H17Par: one compiled array helper evaluated by two goroutines at the same
// time on different matches (what two extractor workers do): each gets the
// result of its own match, and the shared sub-context pool is used without a
// data race - under every interleaving within the bound (scheduler and
// happens-before monitor of the engine; native witness: go test -race).
func H17Par() {
	sub := func(c KeyBuilderContext) string {
		e := c.GetMatch(0)
		zz.Yield() // evaluating the sub-expression takes time
		return e + c.GetKey("k")
	}
	var st KeyBuilderStage
	switch zz.Choice(3) {
	case 0:
		st = zzMust(kfArrayMap([]KeyBuilderStage{zzArg(0), sub}))
	case 1:
		st = zzMust(kfArrayFilter([]KeyBuilderStage{zzArg(0), sub}))
	default:
		st = zzMust(kfArrayReduce([]KeyBuilderStage{zzArg(0), func(c KeyBuilderContext) string {
			zz.Yield()
			return c.GetMatch(0) + c.GetMatch(1) + c.GetKey("k")
		}, zzLit("i")}))
	}
	ctxs := []*zzCtx{{vals: []string{"a" + zzSep + "b"}, key: "1"}, {vals: []string{"c" + zzSep + "d"}, key: "2"}}
	want := []string{st(ctxs[0]), st(ctxs[1])} // sequential reference
	zz.Concurrent(1, zzParPreempt, 0)
	zz.RaceMonitor(true)
	got := make([]string, 2)
	done := make(chan bool)
	for i := 0; i < 2; i++ {
		go func(i int) {
			got[i] = st(ctxs[i])
			done <- true
		}(i)
	}
	<-done
	<-done
	zz.Assert(got[0] == want[0] && got[1] == want[1], "an array helper evaluated concurrently returns another match's result")
	zz.Reached()
}
