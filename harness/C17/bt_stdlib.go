package stdlib

const (
	zzMaxDelim   = 3
	zzMaxStr     = 5
	zzMaxElem    = 2
	zzParPreempt = 2
)
