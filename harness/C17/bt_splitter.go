package stringSplitter

const (
	zzMaxS = 6
	zzMaxD = 3
)
