package stringSplitter

import (
	zz "rare/pkg/zzverif"
)

var zzHarnesses = map[string]func(){"H17Splitter": H17Splitter}

func zzIndex(s, sub string) int {
	for i := 0; i+len(sub) <= len(s); i++ {
		if s[i:i+len(sub)] == sub {
			return i
		}
	}
	return -1
}

func zzSplit(s, d string) []string {
	var out []string
	for {
		i := zzIndex(s, d)
		if i < 0 {
			return append(out, s)
		}
		out = append(out, s[:i])
		s = s[i+len(d):]
	}
}

// H17Splitter: the Next() sequence equals splitting on every occurrence of a
// non-empty delimiter of any length.
func H17Splitter() {
	s := zz.String(zz.Len(zzMaxS))
	d := zz.String(1 + zz.Len(zzMaxD-1))
	sp := Splitter{S: s, Delim: d}
	want := zzSplit(s, d)
	var got []string
	for !sp.Done() {
		v, ok := sp.NextOk()
		zz.Assert(ok, "NextOk reports not-ok before Done")
		got = append(got, v)
		zz.Assert(len(got) <= len(s)+1, "splitter does not terminate")
	}
	zz.Assert(len(got) == len(want), "number of elements differs from splitting on the delimiter")
	for i := range want {
		zz.Assert(got[i] == want[i], "element differs from splitting on the delimiter")
	}
	zz.Assert(sp.Next() == "", "Next after Done is not empty")
	zz.Reached()
}
