package stringSplitter

const (
	zzMaxS = 4
	zzMaxD = 2
)
