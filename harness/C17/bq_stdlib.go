package stdlib

const (
	zzMaxDelim   = 2
	zzMaxStr     = 4
	zzMaxElem    = 1
	zzParPreempt = 1
)
