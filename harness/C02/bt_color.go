package color

const (
	zzColLine   = 4
	zzColGroups = 3
)
