package slicepool

import (
	zz "rare/pkg/zzverif"
)

var zzHarnesses = map[string]func(){"H02Pool": H02Pool}

// H02Pool (one step from an arbitrary pool state): the index slice handed to
// a match has the requested length and shares no cell with any slice handed
// out before - whether or not this call refills the pool - so capture
// offsets held by the consumer are never overwritten by later matches.
func H02Pool() {
	size := 1 + zz.Choice(zzPool)
	p := NewIntPool(size)
	// arbitrary earlier history: some slices were handed out
	var held [][]int
	k := zz.Choice(3)
	for i := 0; i < k; i++ {
		n := zz.Choice(size + 1)
		s := p.Get(n)
		for j := range s {
			s[j] = 100*(i+1) + j
		}
		held = append(held, s)
	}
	n := zz.Choice(size + 1)
	s := p.Get(n)
	zz.Assert(len(s) == n, "pool slice has another length than requested")
	for j := range s {
		s[j] = -1 - j
	}
	for i, h := range held {
		for j := range h {
			zz.Assert(h[j] == 100*(i+1)+j, "a slice handed out earlier was overwritten through a later one")
		}
	}
	zz.Reached()
}
