package extractor

const (
	zzCtxLine   = 3
	zzCtxGroups = 3
)
