package slicepool

const zzPool = 3
