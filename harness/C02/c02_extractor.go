package extractor

import (
	zz "rare/pkg/zzverif"
)

var zzHarnesses = map[string]func(){"H02Ctx": H02Ctx}

// H02Ctx: capture values read through the match context: {N} is the text of
// group N for participating groups and empty for negative, absent or
// non-participating ones - for ANY integer N - {name} goes through the name
// table, {@} lists groups 1.. in order, {src}/{line} are the match's own.
func H02Ctx() {
	line := zz.String(zz.Len(zzCtxLine))
	ng := zz.Len(zzCtxGroups)
	idx := make([]int, 0, 2*ng)
	for g := 0; g < ng; g++ {
		if zz.Bool() {
			idx = append(idx, -1, -1)
			continue
		}
		s := zz.Choice(len(line) + 1)
		e := s + zz.Choice(len(line)-s+1)
		idx = append(idx, s, e)
	}
	if zz.Bool() && len(idx) > 0 {
		idx = idx[:len(idx)-1] // a malformed (odd) index list must not crash either
	}
	names := map[string]int{"a": 1, "b": 7}
	num := zz.Uint64()
	ctx := &SliceSpaceExpressionContext{linePtr: line, indices: idx, nameTable: names, source: "src", lineNum: num}
	n := zz.Int()
	got := ctx.GetMatch(n)
	want := ""
	if n >= 0 && n < 1<<40 && 2*n+1 < len(idx) && idx[2*n] >= 0 && idx[2*n+1] >= 0 {
		want = line[idx[2*n]:idx[2*n+1]]
	}
	zz.Assert(got == want, "{N} is not the group's text (or not empty for an absent / non-participating group)")
	zz.Assert(ctx.GetKey("a") == ctx.GetMatch(1) && ctx.GetKey("b") == "", "a named group does not read as its numbered group")
	zz.Assert(ctx.GetKey("src") == "src" && ctx.GetKey("line") == zz.IntStr(int64(num)) || num >= 1<<63, "{src}/{line} are not the match's source and line number")
	arr := ctx.GetKey("@")
	wantArr := ""
	for g := 1; g < len(idx)/2; g++ {
		if g > 1 {
			wantArr += "\x00"
		}
		wantArr += ctx.GetMatch(g)
	}
	zz.Assert(arr == wantArr, "{@} is not the list of groups 1.. in order")
	zz.Reached()
}
