package extractor

const (
	zzCtxLine   = 4
	zzCtxGroups = 3
)
