package color

import (
	zz "rare/pkg/zzverif"
)

var zzHarnesses = map[string]func(){"H02Color": H02Color}

// H02Color: the default `filter` output colours the capture groups of the
// matched line; with the colour codes removed it is byte-identical to the line
// - for any line and any group pairs a matcher may return (nested,
// overlapping, empty, non-participating), with or without group 0.
func H02Color() {
	Enabled = zz.Bool()
	line := zz.String(zz.Len(zzColLine))
	for i := 0; i < len(line); i++ {
		zz.Assume(line[i] != 0x1b) // a line with its own escape bytes cannot be told apart from the colouring
	}
	ng := zz.Len(zzColGroups)
	var groups []int
	for g := 0; g < ng; g++ {
		if zz.Bool() {
			groups = append(groups, -1, -1)
			continue
		}
		s := zz.Choice(len(line) + 1)
		e := s + zz.Choice(len(line)-s+1)
		groups = append(groups, s, e)
	}
	out := WrapIndices(line, groups)
	// strip ESC [ ... m
	stripped := make([]byte, 0, len(out))
	in := false
	for i := 0; i < len(out); i++ {
		switch {
		case in:
			if out[i] == 'm' {
				in = false
			}
		case out[i] == 0x1b:
			in = true
		default:
			stripped = append(stripped, out[i])
		}
	}
	zz.Assert(string(stripped) == line, "filter output with colour codes removed is not the matched line")
	if !Enabled {
		zz.Assert(out == line, "colouring disabled but the line was changed")
	}
	Enabled = false
	zz.Reached()
}
