package slicepool

const zzPool = 6
