package color

const (
	zzColLine   = 3
	zzColGroups = 2
)
