package batchers

import (
	"compress/gzip"
	"errors"
	"io"
	"os"
	"path/filepath"

	zz "rare/pkg/zzverif"
)

var zzHarnesses = map[string]func(){"H06Open": H06Open, "H06Files": H06Files, "H06Gzip": H06Gzip, "H05Status": H05Status}

// ---- a ghost file system behind os.Open / (*os.File).Read,Seek,Close and gzip.NewReader ----
// Under gosym the five library entry points are redirected to the stubs
// below; natively the same configuration is written to a scratch directory
// and the real library runs (contents are shorter than a gzip header, so the
// real gzip.NewReader fails on them like the stub does).

type zzGhost struct {
	path   string
	exists bool
	data   []byte
	gz     bool // the file holds a gzip member whose payload is data
}

type zzGzHandle struct {
	r   *gzip.Reader
	g   *zzGhost
	pos int
}

var zzGzHandles []*zzGzHandle

type zzHandle struct {
	f      *os.File
	g      *zzGhost
	pos    int
	closed int
}

var (
	zzFS      []*zzGhost
	zzHandles []*zzHandle
	zzGzErr   error
	zzGzEat   int
	zzDir     string
)

var zzErrNoEnt = errors.New("open: no such file")

func zzReset() {
	zzFS, zzHandles, zzGzHandles = nil, nil, nil
	if !zz.Symbolic() {
		zzDir, _ = os.MkdirTemp("", "zzc06")
	}
}

func zzCleanup() {
	if zzDir != "" {
		os.RemoveAll(zzDir)
		zzDir = ""
	}
}

func zzAddFile(name string, exists bool, data []byte) string {
	p := name
	if !zz.Symbolic() {
		p = filepath.Join(zzDir, name)
		if exists {
			os.WriteFile(p, data, 0o644)
		}
	}
	zzFS = append(zzFS, &zzGhost{path: p, exists: exists, data: data})
	return p
}

func zzOpen(name string) (*os.File, error) {
	for _, g := range zzFS {
		if g.path == name {
			if !g.exists {
				return nil, zzErrNoEnt
			}
			f := new(os.File)
			zzHandles = append(zzHandles, &zzHandle{f: f, g: g})
			return f, nil
		}
	}
	return nil, zzErrNoEnt
}

func zzH(f *os.File) *zzHandle {
	for _, h := range zzHandles {
		if h.f == f {
			return h
		}
	}
	zz.Assert(false, "file operation on a handle that was never opened")
	return nil
}

func zzFileRead(f *os.File, p []byte) (int, error) {
	h := zzH(f)
	zz.Assert(h.closed == 0, "read from a closed file")
	data := h.g.data
	if h.g.gz {
		data = append([]byte{0x1f, 0x8b, 0x08}, h.g.data...) // the raw bytes of a gzip member are not its payload
	}
	if h.pos >= len(data) {
		return 0, io.EOF
	}
	n := copy(p, data[h.pos:])
	h.pos += n
	return n, nil
}

func zzFileSeek(f *os.File, off int64, whence int) (int64, error) {
	h := zzH(f)
	switch whence {
	case io.SeekStart:
		h.pos = int(off)
	case io.SeekCurrent:
		h.pos += int(off)
	default:
		h.pos = len(h.g.data) + int(off)
	}
	return int64(h.pos), nil
}

func zzFileClose(f *os.File) error {
	zzH(f).closed++
	return nil
}

// gzip.NewReader: on a ghost gzip file a reader of its payload; on anything else it consumes some bytes, then fails
func zzGzipNewReader(r io.Reader) (*gzip.Reader, error) {
	if f, ok := r.(*os.File); ok {
		if h := zzH(f); h.g.gz {
			zr := new(gzip.Reader)
			zzGzHandles = append(zzGzHandles, &zzGzHandle{r: zr, g: h.g})
			return zr, nil
		}
	}
	if zzGzEat > 0 {
		r.Read(make([]byte, zzGzEat))
	}
	return nil, zzGzErr
}

func zzGzRead(z *gzip.Reader, p []byte) (int, error) {
	for _, h := range zzGzHandles {
		if h.r == z {
			if h.pos >= len(h.g.data) {
				return 0, io.EOF
			}
			n := copy(p, h.g.data[h.pos:])
			h.pos += n
			return n, nil
		}
	}
	zz.Assert(false, "read from a gzip reader that was never created")
	return 0, io.EOF
}

func zzGzClose(z *gzip.Reader) error { return nil }

func zzDrawGzip() {
	zzGzErr = []error{gzip.ErrHeader, io.EOF, io.ErrUnexpectedEOF}[zz.Choice(3)]
	zzGzEat = zz.Choice(zzFileLen + 1)
}

func zzRefLines(data []byte) [][]byte {
	var out [][]byte
	start := 0
	for i := 0; i < len(data); i++ {
		if data[i] == '\n' {
			line := data[start:i]
			if len(line) > 0 && line[len(line)-1] == '\r' {
				line = line[:len(line)-1]
			}
			out = append(out, line)
			start = i + 1
		}
	}
	if start < len(data) {
		out = append(out, data[start:])
	}
	return out
}

// H06Open: with and without -z a plain file is handed on positioned at its
// first byte (whatever gunzip consumed while finding out it is not gzip, and
// whichever error it reported); a missing file is an open error.
func H06Open() {
	zzReset()
	defer zzCleanup()
	exists := zz.Bool()
	data := zz.Bytes(zz.Len(zzFileLen))
	gunzip := zz.Bool()
	zzDrawGzip()
	p := zzAddFile("f0", exists, data)
	r, err := openFileToReader(p, gunzip)
	if !exists {
		zz.Assert(err != nil && r == nil, "opening a missing file does not fail")
		zz.Reached()
		return
	}
	zz.Assert(err == nil && r != nil, "a plain file is rejected (with -z a file that is not gzip must be read as plain)")
	got, rerr := io.ReadAll(r)
	zz.Assert(rerr == nil, "reading the opened file failed")
	zz.Assert(len(got) == len(data), "the opened file does not deliver its content from the first byte")
	for i := range got {
		zz.Assert(got[i] == data[i], "the opened file does not deliver its content from the first byte")
	}
	r.Close()
	zz.Reached()
}

// H06Files: 1..3 named inputs, each present or missing, read with 1..2
// reader slots: every line of every present file is delivered exactly once
// under its file's name, a missing file is one read error and does not stop
// the others, every opened file is closed once, nothing stays registered as
// active, and the dispatcher does not deadlock on its reader slots.
func H06Files() {
	zzReset()
	defer zzCleanup()
	nf := 1 + zz.Choice(zzFiles)
	gunzip := zz.Bool()
	zzDrawGzip()
	conc := 1 + zz.Choice(2)
	names := make(chan string, 8)
	var paths []string
	missing := 0
	for i := 0; i < nf; i++ {
		exists := zz.Bool()
		if !exists {
			missing++
		}
		p := zzAddFile([]string{"f0", "f1", "f2"}[i], exists, zz.Bytes(zz.Len(zzFileLen)))
		paths = append(paths, p)
		names <- p
	}
	close(names)
	zz.BoundedChans(true)
	b := OpenFilesToChan(names, gunzip, conc, 1+zz.Choice(2), 64)
	seen := make([]int, nf)
	for batch := range b.BatchChan() {
		fi := -1
		for i, p := range paths {
			if p == batch.Source {
				fi = i
			}
		}
		zz.Assert(fi >= 0 && zzFS[fi].exists, "a batch names a source that is not one of the readable inputs")
		want := zzRefLines(zzFS[fi].data)
		zz.Assert(batch.BatchStart == uint64(seen[fi]+1), "batch does not continue its file at the next line")
		for _, line := range batch.Batch {
			zz.Assert(seen[fi] < len(want), "more lines delivered than the file holds (a line twice?)")
			zz.Assert(string(line) == string(want[seen[fi]]), "a delivered line differs from the file's line")
			seen[fi]++
		}
	}
	zz.BoundedChans(false)
	for i := range paths {
		if zzFS[i].exists {
			zz.Assert(seen[i] == len(zzRefLines(zzFS[i].data)), "lines of a readable input were lost")
		}
	}
	zz.Assert(b.ReadErrors() == missing, "the number of read errors is not the number of inputs that could not be opened")
	zz.Assert(b.ActiveFileCount() == 0, "an input is still registered as being read after the end")
	if zz.Symbolic() {
		for _, h := range zzHandles {
			zz.Assert(h.closed == 1, "an opened file was not closed exactly once")
		}
	}
	zz.Reached()
}

// H05Status (property C05, race freedom): the file dispatcher, its reader
// goroutines and a consumer that - like every command's render callback -
// asks the batcher for its status line while batches arrive. Under every
// interleaving within the bound no two goroutines touch the batcher's state
// without a happens-before order.
func H05Status() {
	zzReset()
	defer zzCleanup()
	zzDrawGzip()
	names := make(chan string, 4)
	for i := 0; i < 2; i++ {
		names <- zzAddFile([]string{"f0", "f1"}[i], true, []byte("a\n"))
	}
	close(names)
	zz.AbstractFloatArith(true) // the transfer-rate arithmetic of the status line is not the subject
	zz.Concurrent(1, zzRacePreempt, 0)
	zz.RaceMonitor(true)
	b := OpenFilesToChan(names, false, 1, 1, 4)
	lines := 0
	for batch := range b.BatchChan() {
		lines += len(batch.Batch)
		if lines == 1 {
			_ = b.StatusString() // what the periodic render prints under every aggregator
		}
	}
	_ = b.StatusString()
	zz.Assert(lines == 2, "lines lost")
	zz.Reached()
}

func zzByteSize(n uint64) string { return "n" }

func zzAddGzipFile(name string, payload []byte) string {
	p := name
	if !zz.Symbolic() {
		p = filepath.Join(zzDir, name)
		f, _ := os.Create(p)
		zw := gzip.NewWriter(f)
		zw.Write(payload)
		zw.Close()
		f.Close()
	}
	zzFS = append(zzFS, &zzGhost{path: p, exists: true, data: payload, gz: true})
	return p
}

// H06Gzip: with -z a gzip input is delivered decompressed - whatever its
// name looks like - and without -z its bytes are not interpreted.
func H06Gzip() {
	zzReset()
	defer zzCleanup()
	zzDrawGzip()
	payload := zz.Bytes(zz.Len(zzFileLen))
	name := []string{"f0.gz", "f0.gz.1", "F0.GZ", "f0"}[zz.Choice(4)]
	p := zzAddGzipFile(name, payload)
	r, err := openFileToReader(p, true)
	zz.Assert(err == nil && r != nil, "a gzip input is rejected with -z")
	got, rerr := io.ReadAll(r)
	zz.Assert(rerr == nil, "reading the gzip input failed")
	zz.Assert(len(got) == len(payload), "with -z a gzip input is not delivered decompressed")
	for i := range got {
		zz.Assert(got[i] == payload[i], "with -z a gzip input is not delivered decompressed")
	}
	r.Close()
	zz.Reached()
}
