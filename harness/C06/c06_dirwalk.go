package dirwalk

import (
	"errors"
	"io/fs"
	"os"
	"path/filepath"
	"time"

	zz "rare/pkg/zzverif"
)

var zzHarnesses = map[string]func(){"H06Glob": H06Glob}

// ---- a ghost directory behind filepath.Glob / filepath.Walk / os.Stat (gosym redirects;
// natively the same tree is created in a scratch directory and the real library runs) ----
//   <dir>/a.log  <dir>/b.log  <dir>/sub/c.log     (each file present or not; sub always a directory)

var (
	zzDir                  string
	zzHasA, zzHasB, zzHasC bool
)

type zzInfo struct {
	name string
	dir  bool
}

func (i zzInfo) Name() string       { return i.name }
func (i zzInfo) Size() int64        { return 0 }
func (i zzInfo) Mode() fs.FileMode  { return 0o644 }
func (i zzInfo) ModTime() time.Time { return time.Time{} }
func (i zzInfo) IsDir() bool        { return i.dir }
func (i zzInfo) Sys() any           { return nil }

var zzErrNoEnt = errors.New("no such file or directory")

func zzP(parts ...string) string {
	p := zzDir
	for _, x := range parts {
		p += "/" + x
	}
	return p
}

func zzExists(p string) (exists, dir bool) {
	switch p {
	case zzDir, zzP("sub"):
		return true, true
	case zzP("a.log"):
		return zzHasA, false
	case zzP("b.log"):
		return zzHasB, false
	case zzP("sub", "c.log"):
		return zzHasC, false
	}
	return false, false
}

func zzStat(name string) (os.FileInfo, error) {
	e, d := zzExists(name)
	if !e {
		return nil, zzErrNoEnt
	}
	return zzInfo{name, d}, nil
}

func zzGlob(pattern string) ([]string, error) {
	if pattern == zzP("*.log") {
		var out []string
		if zzHasA {
			out = append(out, zzP("a.log"))
		}
		if zzHasB {
			out = append(out, zzP("b.log"))
		}
		return out, nil
	}
	if e, _ := zzExists(pattern); e {
		return []string{pattern}, nil
	}
	return nil, nil
}

func zzWalk(root string, fn filepath.WalkFunc) error {
	visit := func(p string, dir bool) error { return fn(p, zzInfo{p, dir}, nil) }
	switch root {
	case zzDir:
		if err := visit(zzDir, true); err != nil {
			return err
		}
		if zzHasA {
			visit(zzP("a.log"), false)
		}
		if zzHasB {
			visit(zzP("b.log"), false)
		}
		visit(zzP("sub"), true)
		if zzHasC {
			visit(zzP("sub", "c.log"), false)
		}
	case zzP("sub"):
		visit(zzP("sub"), true)
		if zzHasC {
			visit(zzP("sub", "c.log"), false)
		}
	}
	return nil
}

// H06Glob: every argument contributes, in argument order: with -R and a
// directory, exactly the regular files below it; otherwise the matches of
// the glob, or the argument itself when nothing matches (so that a missing
// file is reported when it is opened) - never both, nothing twice; the
// output channel is closed after the last path.
func H06Glob() {
	zzDir = "d"
	if !zz.Symbolic() {
		zzDir, _ = os.MkdirTemp("", "zzc06g")
		defer os.RemoveAll(zzDir)
	}
	zzHasA, zzHasB, zzHasC = zz.Bool(), zz.Bool(), zz.Bool()
	if !zz.Symbolic() {
		os.Mkdir(zzP("sub"), 0o755)
		for _, f := range []struct {
			p  string
			on bool
		}{{zzP("a.log"), zzHasA}, {zzP("b.log"), zzHasB}, {zzP("sub", "c.log"), zzHasC}} {
			if f.on {
				os.WriteFile(f.p, []byte("x\n"), 0o644)
			}
		}
	}
	recursive := zz.Bool()
	cands := []string{zzP("a.log"), zzP("*.log"), zzP("missing"), zzDir, zzP("sub")}
	n := 1 + zz.Choice(2)
	var args []string
	var want []string
	for i := 0; i < n; i++ {
		a := cands[zz.Choice(len(cands))]
		args = append(args, a)
		_, isDir := zzExists(a)
		switch {
		case recursive && isDir && a == zzDir:
			for _, f := range []struct {
				p  string
				on bool
			}{{zzP("a.log"), zzHasA}, {zzP("b.log"), zzHasB}, {zzP("sub", "c.log"), zzHasC}} {
				if f.on {
					want = append(want, f.p)
				}
			}
		case recursive && isDir:
			if zzHasC {
				want = append(want, zzP("sub", "c.log"))
			}
		case a == zzP("*.log") && (zzHasA || zzHasB):
			if zzHasA {
				want = append(want, zzP("a.log"))
			}
			if zzHasB {
				want = append(want, zzP("b.log"))
			}
		default:
			want = append(want, a) // a match of itself, or the literal argument when nothing matches
		}
	}
	var got []string
	for p := range GlobExpand(args, recursive) {
		got = append(got, p)
	}
	zz.Assert(len(got) == len(want), "number of expanded paths differs from the documented expansion")
	for i := range want {
		zz.Assert(got[i] == want[i], "expanded paths differ from the documented expansion (order, duplicates or a literal next to its matches)")
	}
	zz.Reached()
}
