package batchers

const (
	zzFileLen     = 2
	zzFiles       = 2
	zzRacePreempt = 1
)
