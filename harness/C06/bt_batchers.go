package batchers

const (
	zzFileLen     = 3
	zzFiles       = 2
	zzRacePreempt = 2
)
