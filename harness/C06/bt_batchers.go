package batchers

const (
	zzFileLen = 3
	zzFiles   = 2
)
