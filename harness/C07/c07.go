package aggregation

import (
	zz "rare/pkg/zzverif"
)

var zzHarnesses = map[string]func(){"H07Counter": H07Counter, "H07SubKey": H07SubKey, "H07Table": H07Table, "H07Trim": H07Trim, "H07Num": H07Num, "H07Order": H07Order}

const zzNul = "\x00"

// zzKey: one of three keys (the empty key included). Key identity is a
// concrete choice (the history's collision pattern is the fork); the
// increments are the symbolic part.
func zzKey() string {
	return []string{"", "a", "b"}[zz.Choice(3)]
}

type zzSample struct {
	key, sub string
	inc      int64
	bad      bool // the increment is present but not an integer
}

// zzIncrement: absent (counts 1), ANY int64 (given to the aggregator through
// its SampleValue entry point: direct = true), or a short increment text
// that goes through Sample's own parsing (integers and non-integers).
func zzIncrement() (text string, has bool, inc int64, bad bool, direct bool) {
	switch zz.Choice(3) {
	case 0:
		return "", false, 1, false, false
	case 1:
		return "", true, zz.Int64(), false, true
	}
	i := zz.Choice(4)
	return []string{"-2", "x", "1.5", ""}[i], true, []int64{-2, 0, 0, 0}[i], i >= 1, false
}

// H07Counter: after every prefix of a sample history the counter holds the
// fold: per-key sums (wrap-around like the implementation's int64), total,
// number of distinct keys, parse errors.
func H07Counter() {
	c := NewCounter()
	var hist []zzSample
	n := 1 + zz.Choice(zzMaxSamples)
	for i := 0; i < n; i++ {
		k := zzKey()
		txt, has, inc, bad, direct := zzIncrement()
		el := k
		if has {
			el += zzNul + txt
		}
		if direct {
			c.SampleValue(k, inc)
		} else {
			c.Sample(el)
		}
		hist = append(hist, zzSample{key: k, inc: inc, bad: bad})
		zzCheckCounter(c, hist)
	}
	zz.Reached()
}

func zzCheckCounter(c *MatchCounter, hist []zzSample) {
	var total int64
	var errs uint64
	for _, h := range hist {
		if h.bad {
			errs++
		} else {
			total += h.inc
		}
	}
	zz.Assert(c.Total() == total, "counter total is not the sum of the increments")
	zz.Assert(c.ParseErrors() == errs, "counter parse errors is not the number of non-integer increments")
	// every key of the history holds its sum; nothing else is present
	distinct := 0
	for i, h := range hist {
		if h.bad {
			continue
		}
		first := true
		for j := 0; j < i; j++ {
			if !hist[j].bad && hist[j].key == h.key {
				first = false
			}
		}
		if !first {
			continue
		}
		distinct++
		var sum int64
		for _, g := range hist {
			if !g.bad && g.key == h.key {
				sum += g.inc
			}
		}
		found := 0
		for _, it := range c.Items() {
			if it.Name == h.key {
				found++
				zz.Assert(it.Item.Count() == sum, "counter value of a key is not the sum of its increments")
			}
		}
		zz.Assert(found == 1, "a sampled key is missing or listed twice")
	}
	zz.Assert(c.GroupCount() == distinct && len(c.Items()) == distinct, "number of keys is not the number of distinct sampled keys")
}

// H07SubKey: sub-key counter: sorted sub-key list, aligned rows, cell sums.
func H07SubKey() {
	c := NewSubKeyCounter()
	var hist []zzSample
	n := 1 + zz.Choice(zzMaxSamples)
	for i := 0; i < n; i++ {
		k, sk := zzKey(), zzKey()
		txt, has, inc, bad, direct := zzIncrement()
		el := k + zzNul + sk
		if has {
			el += zzNul + txt
		}
		if direct {
			c.SampleValue(k, sk, inc)
		} else {
			c.Sample(el)
		}
		hist = append(hist, zzSample{key: k, sub: sk, inc: inc, bad: bad})

		subs := c.SubKeys()
		for j := 1; j < len(subs); j++ {
			zz.Assert(subs[j-1] < subs[j], "sub-keys are not strictly sorted")
		}
		var errs uint64
		for _, h := range hist {
			if h.bad {
				errs++
			}
		}
		zz.Assert(c.ParseErrors() == errs, "sub-key counter parse errors")
		for _, it := range c.Items() {
			zz.Assert(len(it.Item.Items()) == len(subs), "a row is not aligned with the sub-key list")
			var rowSum int64
			for j, sub := range subs {
				var want int64
				for _, h := range hist {
					if !h.bad && h.key == it.Name && h.sub == sub {
						want += h.inc
					}
				}
				zz.Assert(it.Item.Items()[j] == want, "a cell is not the sum of its increments")
				rowSum += want
			}
			zz.Assert(it.Item.Count() == rowSum, "row total is not the sum of its cells")
		}
		for _, h := range hist {
			if h.bad {
				continue
			}
			foundK, foundS := false, false
			for _, it := range c.Items() {
				if it.Name == h.key {
					foundK = true
				}
			}
			for _, s := range subs {
				if s == h.sub {
					foundS = true
				}
			}
			zz.Assert(foundK && foundS, "a sampled key or sub-key is missing")
		}
	}
	zz.Reached()
}

// H07Table: table aggregator: cells, row/column/grand totals, min/max over
// all row x column cells with absent cells counting as 0.
func H07Table() {
	t := NewTable(zzNul)
	var hist []zzSample // key = column, sub = row
	n := 1 + zz.Choice(zzMaxSamples)
	for i := 0; i < n; i++ {
		col := zzKey()
		row := ""
		el := col
		inc, bad, direct := int64(1), false, false
		if zz.Choice(2) == 1 {
			row = []string{"", "a"}[zz.Choice(2)]
			txt, has, v, b, d := zzIncrement()
			el += zzNul + row
			inc, bad, direct = v, b, d
			if has {
				el += zzNul + txt
			}
		}
		if direct {
			t.SampleItem(col, row, inc)
		} else {
			t.Sample(el)
		}
		hist = append(hist, zzSample{key: col, sub: row, inc: inc, bad: bad})
	}
	var errs uint64
	var grand int64
	for _, h := range hist {
		if h.bad {
			errs++
		} else {
			grand += h.inc
		}
	}
	zz.Assert(t.ParseErrors() == errs, "table parse errors")
	zz.Assert(t.Sum() == grand, "grand total is not the sum of all increments")
	cell := func(col, row string) (v int64) {
		for _, h := range hist {
			if !h.bad && h.key == col && h.sub == row {
				v += h.inc
			}
		}
		return
	}
	rows, cols := t.Rows(), t.Columns()
	zz.Assert(len(rows) == t.RowCount() && len(cols) == t.ColumnCount(), "row/column counts")
	first := true
	var min, max int64
	for _, r := range rows {
		var rs int64
		for _, c := range cols {
			v := cell(c, r.Name())
			zz.Assert(r.Value(c) == v, "a cell is not the sum of its increments")
			rs += v
			if first || v < min {
				min = v
			}
			if first || v > max {
				max = v
			}
			first = false
		}
		zz.Assert(r.Sum() == rs, "row total is not the sum of its cells")
	}
	for _, c := range cols {
		var cs int64
		for _, r := range rows {
			cs += cell(c, r.Name())
		}
		zz.Assert(t.ColTotal(c) == cs, "column total is not the sum of its cells")
	}
	gmin, gmax := t.ComputeMinMax()
	if !first {
		zz.Assert(gmin == min && gmax == max, "min/max is not taken over all row x column cells with absent cells as 0")
	}
	for _, h := range hist {
		if h.bad {
			continue
		}
		fr, fc := false, false
		for _, r := range rows {
			if r.Name() == h.sub {
				fr = true
			}
		}
		for _, c := range cols {
			if c == h.key {
				fc = true
			}
		}
		zz.Assert(fr && fc, "a sampled row or column is missing")
	}
	zz.Reached()
}

// H07Trim: trimming removes exactly the selected cells plus rows and columns
// left empty, under every map iteration order.
func H07Trim() {
	t := NewTable(zzNul)
	colNames := []string{"a", "b"}
	rowNames := []string{"x", "y"}
	var present [2][2]bool
	var val [2][2]int64
	any := false
	for c := 0; c < 2; c++ {
		for r := 0; r < 2; r++ {
			if zz.Choice(2) == 1 {
				present[c][r] = true
				val[c][r] = int64(zz.IntRange(-3, 3))
				t.SampleItem(colNames[c], rowNames[r], val[c][r])
				any = true
			}
		}
	}
	zz.Assume(any)
	th := int64(zz.IntRange(-3, 3))
	zz.MapOrder(true)
	removed := t.Trim(func(col, row string, v int64) bool { return v < th })
	zz.MapOrder(false)
	want := 0
	for c := 0; c < 2; c++ {
		for r := 0; r < 2; r++ {
			if present[c][r] && val[c][r] < th {
				want++
			}
		}
	}
	zz.Assert(removed >= want, "Trim reports fewer removals than cells it removed")
	for c := 0; c < 2; c++ {
		colLeft := false
		for r := 0; r < 2; r++ {
			keep := present[c][r] && !(val[c][r] < th)
			if keep {
				colLeft = true
			}
			var row *TableRow
			for _, x := range t.Rows() {
				if x.Name() == rowNames[r] {
					row = x
				}
			}
			rowLeft := false
			for c2 := 0; c2 < 2; c2++ {
				if present[c2][r] && !(val[c2][r] < th) {
					rowLeft = true
				}
			}
			zz.Assert((row != nil) == rowLeft, "a row left empty is kept, or a non-empty row is dropped")
			if row != nil {
				_, has := row.cols[colNames[c]]
				zz.Assert(has == keep, "Trim removed a cell that was not selected or kept a selected one")
				if keep {
					zz.Assert(row.Value(colNames[c]) == val[c][r], "Trim changed a kept cell")
				}
			}
		}
		_, hasCol := t.cols[colNames[c]]
		zz.Assert(hasCol == colLeft, "a column left empty is kept, or a non-empty column is dropped")
	}
	zz.Reached()
}

// H07Num: numerical aggregator: count, min, max, parse errors; on the sorted
// sample list median, mode and quantiles are nearest-rank order statistics.
func H07Num() {
	m := NewNumericalAggregator(&NumericalConfig{KeepValuesForAnalysis: true})
	n := 1 + zz.Choice(zzMaxNum)
	vals := make([]float64, 0, n)
	bad := uint64(0)
	for i := 0; i < n; i++ {
		if zz.Choice(4) == 3 {
			m.Sample("x1")
			bad++
			continue
		}
		// integers in a small range: exactly representable, ties possible
		v := float64(zz.IntRange(-2, 2))
		m.Sample(zz.FloatStr(v))
		vals = append(vals, v)
	}
	zz.Assert(m.ParseErrors() == bad && m.Count() == uint64(len(vals)), "count / parse errors")
	if len(vals) == 0 {
		zz.Reached()
		return
	}
	mn, mx := vals[0], vals[0]
	for _, v := range vals {
		if v < mn {
			mn = v
		}
		if v > mx {
			mx = v
		}
	}
	zz.Assert(m.Min() == mn && m.Max() == mx, "min / max")
	a := m.Analyze()
	// reference: insertion sort
	s := append([]float64{}, vals...)
	for i := 1; i < len(s); i++ {
		for j := i; j > 0 && s[j] < s[j-1]; j-- {
			s[j], s[j-1] = s[j-1], s[j]
		}
	}
	zz.Assert(a.Median() == s[len(s)/2], "median is not the middle order statistic")
	q := []float64{0, 0.25, 0.5, 0.9, 0.99, 1.0}[zz.Choice(6)]
	idx := int(float64(len(s)) * q)
	if idx >= len(s) {
		idx = len(s) - 1
	}
	zz.Assert(a.Quantile(q) == s[idx], "quantile is not the nearest-rank order statistic")
	// mode: a value of maximal multiplicity
	best := 0
	for _, v := range s {
		c := 0
		for _, w := range s {
			if w == v {
				c++
			}
		}
		if c > best {
			best = c
		}
	}
	mode := a.Mode()
	cm := 0
	for _, w := range s {
		if w == mode {
			cm++
		}
	}
	zz.Assert(cm == best, "mode is not a value of maximal multiplicity")
	zz.Reached()
}

// H07Order: for the count-style aggregators two samples commute: swapping
// adjacent samples gives the same state (so the result does not depend on
// arrival order, for histories of any length).
func H07Order() {
	k1, k2 := zzKey(), zzKey()
	s1, s2 := zzKey(), zzKey()
	i1, i2 := zz.Int64(), zz.Int64()
	pre := zzKey()
	a, b := NewSubKeyCounter(), NewSubKeyCounter()
	a.SampleValue(pre, pre, 1)
	b.SampleValue(pre, pre, 1)
	a.SampleValue(k1, s1, i1)
	a.SampleValue(k2, s2, i2)
	b.SampleValue(k2, s2, i2)
	b.SampleValue(k1, s1, i1)
	sa, sb := a.SubKeys(), b.SubKeys()
	zz.Assert(len(sa) == len(sb), "sub-key lists differ with sample order")
	for i := range sa {
		zz.Assert(sa[i] == sb[i], "sub-key lists differ with sample order")
	}
	for _, x := range a.Items() {
		found := false
		for _, y := range b.Items() {
			if x.Name == y.Name {
				found = true
				zz.Assert(x.Item.Count() == y.Item.Count(), "row totals differ with sample order")
				for j := range x.Item.Items() {
					zz.Assert(x.Item.Items()[j] == y.Item.Items()[j], "cells differ with sample order")
				}
			}
		}
		zz.Assert(found, "keys differ with sample order")
	}
	zz.Assert(len(a.Items()) == len(b.Items()), "keys differ with sample order")
	zz.Reached()
}
