package aggregation

const (
	zzMaxSamples = 3
	zzMaxNum     = 3
)
