package aggregation

const (
	zzMaxSamples = 4
	zzMaxNum     = 5
)
