package multiterm

const (
	zzLines     = 3
	zzWidth     = 3
	zzUpdates   = 2
	zzTrimWidth = 3
	zzTrimLen   = 4
)
