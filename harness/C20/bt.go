package multiterm

const (
	zzLines     = 5
	zzWidth     = 4
	zzUpdates   = 3
	zzTrimWidth = 4
	zzTrimLen   = 5
)
