package multiterm

import (
	zz "rare/pkg/zzverif"
)

var zzHarnesses = map[string]func(){"H20Step": H20Step, "H20Close": H20Close, "H20Buffered": H20Buffered, "H20Trim": H20Trim}

// ---- a VT100-subset terminal (what the writer's byte stream means) ----

type zzScreen struct {
	rows    [][]byte // rows x width, ' ' = blank
	row     int
	col     int
	visible bool
	bad     bool // a byte sequence outside the subset, or the cursor left the screen
}

func zzNewScreen(nrows, width int) *zzScreen {
	s := &zzScreen{visible: true}
	s.rows = make([][]byte, nrows)
	for i := range s.rows {
		s.rows[i] = make([]byte, width)
		for j := range s.rows[i] {
			s.rows[i][j] = ' '
		}
	}
	return s
}

func (s *zzScreen) feed(out string) {
	w := len(s.rows[0])
	for i := 0; i < len(out); i++ {
		b := out[i]
		switch {
		case b == '\n': // the tty driver turns NL into CR NL
			s.row++
			s.col = 0
			if s.row >= len(s.rows) {
				s.bad = true
				return
			}
		case b == '\r':
			s.col = 0
		case b == 0x1b:
			// ESC [ <digits> A | ESC [ 0 K | ESC [ ? 25 l|h
			if i+2 >= len(out) || out[i+1] != '[' {
				s.bad = true
				return
			}
			j := i + 2
			private := false
			if out[j] == '?' {
				private = true
				j++
			}
			n := 0
			for j < len(out) && out[j] >= '0' && out[j] <= '9' {
				n = n*10 + int(out[j]-'0')
				j++
			}
			if j >= len(out) {
				s.bad = true
				return
			}
			switch {
			case private && n == 25 && out[j] == 'l':
				s.visible = false
			case private && n == 25 && out[j] == 'h':
				s.visible = true
			case !private && out[j] == 'm': // colour: no effect on position or text
			case !private && out[j] == 'A':
				s.row -= n
				if s.row < 0 {
					s.bad = true
					return
				}
			case !private && out[j] == 'K' && n == 0:
				for c := s.col; c < w; c++ {
					s.rows[s.row][c] = ' '
				}
			default:
				s.bad = true
				return
			}
			i = j
		default:
			if s.col >= w { // would wrap into the next line
				s.bad = true
				return
			}
			s.rows[s.row][s.col] = b
			s.col++
		}
	}
}

func zzPrintable(n int) string {
	b := zz.Bytes(n)
	for _, c := range b {
		zz.Assume(c > 0x20 && c < 0x7f)
	}
	return string(b)
}

// an arbitrary writer state with the terminal in the state the writer believes it is in
func zzState() (*TermWriter, *zzScreen) {
	maxLine := zz.Choice(zzLines)
	cursor := zz.Choice(maxLine + 1)
	hidden := zz.Bool()
	tw := &TermWriter{cursor: cursor, maxLine: maxLine, cursorHidden: hidden, ClearLine: true, HideCursor: true}
	scr := zzNewScreen(zzLines+1, zzWidth)
	for r := 0; r <= maxLine; r++ { // whatever earlier updates left on the lines in use
		for c := 0; c < zzWidth; c++ {
			b := zz.Byte()
			zz.Assume(b >= 0x20 && b < 0x7f)
			scr.rows[r][c] = b
		}
	}
	scr.row, scr.col, scr.visible = cursor, zz.Choice(zzWidth+1), !hidden
	return tw, scr
}

// H20Step (one inductive step): from ANY writer state (cursor anywhere
// within the lines in use, any earlier screen contents) one update of any
// line leaves exactly the new text on that line (longer earlier text
// erased), every other line untouched, and the writer's belief about the
// cursor equal to the terminal's. Covers update histories of any length.
func H20Step() {
	AutoTrim = zz.Bool()
	computedCols = zzWidth
	tw, scr := zzState()
	before := make([][]byte, len(scr.rows))
	for i := range scr.rows {
		before[i] = append([]byte(nil), scr.rows[i]...)
	}
	line := zz.Choice(zzLines)
	n := zz.Len(zzWidth + 1)
	if !AutoTrim && n > zzWidth {
		n = zzWidth // without trimming a longer text wraps: outside the claim
	}
	text := zzPrintable(n)
	oldMax := tw.maxLine
	shownText := text
	if zz.Bool() { // colour-coded update: the codes take no room on screen
		d := zz.Byte()
		zz.Assume(d >= '0' && d <= '7')
		text = "\x1b[3" + string([]byte{d}) + "m" + text + "\x1b[0m"
	}
	zz.CaptureStdout()
	tw.WriteForLine(line, text)
	out := zz.Stdout()
	scr.feed(out)
	zz.Assert(!scr.bad, "the update wraps, leaves the screen or emits an unknown control sequence")
	zz.Assert(scr.row == line && tw.cursor == line, "after an update the cursor is not on the updated line (or the writer believes otherwise)")
	shown := n
	if shown > zzWidth {
		shown = zzWidth
	}
	for c := 0; c < zzWidth; c++ {
		if c < shown {
			zz.Assert(scr.rows[line][c] == shownText[c], "the updated line does not show the new text")
		} else {
			zz.Assert(scr.rows[line][c] == ' ', "earlier longer text is not erased")
		}
	}
	for r := range scr.rows {
		if r == line {
			continue
		}
		for c := 0; c < zzWidth; c++ {
			zz.Assert(scr.rows[r][c] == before[r][c], "an update changed another line")
		}
	}
	wantMax := oldMax
	if line > wantMax {
		wantMax = line
	}
	zz.Assert(tw.maxLine == wantMax, "the writer's last line in use is not the highest line ever written")
	zz.Assert(tw.cursorHidden && !scr.visible, "cursor not hidden while updating")
	AutoTrim, computedCols = false, defaultCols
	zz.Reached()
}

// H20Close: from any writer state Close parks the cursor at the start of
// the line below the last line in use, visible again, and changes no line.
func H20Close() {
	AutoTrim = false
	tw, scr := zzState()
	maxLine := tw.maxLine
	hidden := tw.cursorHidden
	before := make([][]byte, len(scr.rows))
	for i := range scr.rows {
		before[i] = append([]byte(nil), scr.rows[i]...)
	}
	zz.CaptureStdout()
	tw.Close()
	scr.feed(zz.Stdout())
	zz.Assert(!scr.bad, "close leaves the screen or emits an unknown control sequence")
	zz.Assert(scr.row == maxLine+1 && scr.col == 0, "close does not park the cursor below the last line")
	zz.Assert(scr.visible, "close leaves the cursor hidden")
	_ = hidden
	for r := range scr.rows {
		for c := 0; c < zzWidth; c++ {
			zz.Assert(scr.rows[r][c] == before[r][c], "close changed a line")
		}
	}
	zz.Reached()
}

// H20Buffered: the buffered (snapshot / piped) writer prints, on close, the
// latest text of every line top to bottom.
func H20Buffered() {
	AutoTrim = false
	bt := NewBufferedTerm()
	var latest [zzLines + 1]string
	top := -1
	k := 1 + zz.Choice(zzUpdates)
	for i := 0; i < k; i++ {
		line := zz.Choice(zzLines + 1)
		text := zzPrintable(zz.Len(2))
		bt.WriteForLine(line, text)
		latest[line] = text
		if line > top {
			top = line
		}
	}
	zz.CaptureStdout()
	bt.Close()
	out := zz.Stdout()
	want := ""
	for i := 0; i <= top; i++ {
		want += latest[i] + "\n"
	}
	zz.Assert(out == want, "buffered writer does not print the latest text of every line top to bottom")
	zz.Reached()
}

// ---- trimming ----

type zzBuf struct{ b []byte }

func (s *zzBuf) Write(p []byte) (int, error) { s.b = append(s.b, p...); return len(p), nil }

// visible runes of s (outside ESC...m sequences), and whether s ends inside an unterminated sequence
func zzVisibleRunes(s string) (vis []rune, open bool) {
	in := false
	for _, r := range s {
		switch {
		case in:
			if r == 'm' {
				in = false
			}
		case r == 0x1b:
			in = true
		default:
			vis = append(vis, r)
		}
	}
	return vis, in
}

// H20Trim: for any width >= 1 a line is cut to a prefix whose visible part is
// the first min(width, visible length) visible characters of the line and
// that does not end inside a colour sequence that the line completes.
func H20Trim() {
	AutoTrim = true
	computedCols = 1 + zz.Choice(zzTrimWidth)
	n := zz.Len(zzTrimLen)
	b := make([]byte, 0, 2*n)
	for i := 0; i < n; i++ {
		if zz.Choice(zzTrimLen+1) == 0 { // a two-byte rune
			b = append(b, 0xc3, 0xa9)
			continue
		}
		c := zz.Byte()
		zz.Assume(c == 0x1b || (c >= 0x20 && c < 0x7f))
		b = append(b, c)
	}
	s := string(b)
	var out zzBuf
	WriteLineNoWrap(&out, s)
	o := string(out.b)
	zz.Assert(len(o) <= len(s) && s[:len(o)] == o, "trimmed output is not a prefix of the line")
	vs, _ := zzVisibleRunes(s)
	vo, openO := zzVisibleRunes(o)
	want := len(vs)
	if want > computedCols {
		want = computedCols
	}
	zz.Assert(len(vo) <= computedCols, "trimmed line exceeds the terminal width in visible characters")
	zz.Assert(len(vo) == want, "trimmed line does not show the first min(width, length) visible characters")
	if openO {
		// the output ends inside a colour sequence: only if the line itself never ends it
		rest := s[len(o):]
		closed := false
		for i := 0; i < len(rest); i++ {
			if rest[i] == 'm' {
				closed = true
			}
		}
		zz.Assert(!closed, "trimmed line ends inside a colour escape sequence")
	}
	AutoTrim, computedCols = false, defaultCols
	zz.Reached()
}
