package minijson

const (
	zzMaxStr      = 3
	zzMaxStrAlpha = 5
	zzMaxInfer    = 5
)
