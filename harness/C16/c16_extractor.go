package extractor

import (
	zz "rare/pkg/zzverif"
)

var zzHarnesses = map[string]func(){"H16Object": H16Object, "H16ObjectOrder": H16ObjectOrder}

func zzCtx(nNamed int, line []byte, nGroups int) (*SliceSpaceExpressionContext, [][]byte) {
	// groups: arbitrary spans of the line, or non-participating (-1,-1)
	idx := make([]int, 0, 2*nGroups)
	var texts [][]byte
	for g := 0; g < nGroups; g++ {
		if g > 0 && zz.Choice(3) == 0 {
			idx = append(idx, -1, -1)
			texts = append(texts, nil)
			continue
		}
		s := zz.Choice(len(line) + 1)
		e := s + zz.Choice(len(line)-s+1)
		idx = append(idx, s, e)
		texts = append(texts, line[s:e])
	}
	names := map[string]int{}
	all := []string{"a", "b", "c"}
	for i := 0; i < nNamed && i+1 < nGroups; i++ {
		names[all[i]] = i + 1
	}
	return &SliceSpaceExpressionContext{linePtr: string(line), indices: idx, nameTable: names, source: "src", lineNum: 7}, texts
}

// H16Object: {.} {#} {.#} are valid JSON objects whose members decode to the group texts.
func H16Object() {
	line := zz.Bytes(zz.Len(zzMaxLine))
	for _, c := range line {
		zz.Assume(c == '"' || c == '\\' || c == 1 || c == 'a' || c == '0' || c == '7' || c == 't')
	}
	nGroups := 1 + zz.Choice(zzMaxGroups)
	nNamed := zz.Choice(2)
	ctx, texts := zzCtx(nNamed, line, nGroups)
	mode := zz.Choice(3)
	key := []string{".", "#", ".#"}[mode]
	out := []byte(ctx.GetKey(key))
	ms, ok := zzParseObject(out)
	zz.Assert(ok, "JSON view is not a valid JSON object")
	// expected members, in any order: named (mode 0,2) then numbered non-empty (mode 1,2)
	type want struct {
		key  string
		text []byte
	}
	var ws []want
	if mode != 1 {
		for name, gi := range ctx.nameTable {
			ws = append(ws, want{name, texts[gi]})
		}
	}
	if mode != 0 {
		for g := 0; g < nGroups; g++ {
			if len(texts[g]) > 0 {
				ws = append(ws, want{string(rune('0' + g)), texts[g]})
			}
		}
	}
	zz.Assert(len(ms) == len(ws), "JSON view has the wrong number of members")
	for _, w := range ws {
		found := 0
		for _, m := range ms {
			if zzBytesEq(m.key, []byte(w.key)) {
				found++
				zz.Assert(zzFaithful(m, w.text), "member does not decode to the group text")
			}
		}
		zz.Assert(found == 1, "member missing or duplicated")
	}
	zz.Reached()
}

// H16ObjectOrder: the same match always yields the same text (map iteration
// order is forked by gosym; natively the view is recomputed many times).
func H16ObjectOrder() {
	line := []byte("ab")
	ctx, _ := zzCtx(2, line, 3)
	key := []string{".", ".#"}[zz.Choice(2)]
	zz.MapOrder(true)
	first := ctx.GetKey(key)
	n := 1
	if !zz.Symbolic() {
		n = 64
	}
	for i := 0; i < n; i++ {
		zz.Assert(ctx.GetKey(key) == first, "the same match rendered two different JSON texts")
	}
	zz.Reached()
}
