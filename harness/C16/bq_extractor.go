package extractor

const (
	zzMaxLine   = 2
	zzMaxGroups = 2
)
