package minijson

const (
	zzMaxStr      = 2
	zzMaxStrAlpha = 4
	zzMaxInfer    = 4
)
