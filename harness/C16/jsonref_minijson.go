package minijson

// A strict RFC 8259 recogniser/decoder for the small JSON objects rare emits.
// Members are returned as (key, kind, text): kind 's' string (decoded bytes),
// 'n' number (literal text), 'b' boolean.

type zzMember struct {
	key  []byte
	kind byte
	val  []byte
}

func zzWs(b []byte, i int) int {
	for i < len(b) && (b[i] == ' ' || b[i] == '\t' || b[i] == '\n' || b[i] == '\r') {
		i++
	}
	return i
}

func zzHex(c byte) int {
	switch {
	case c >= '0' && c <= '9':
		return int(c - '0')
	case c >= 'a' && c <= 'f':
		return int(c-'a') + 10
	case c >= 'A' && c <= 'F':
		return int(c-'A') + 10
	}
	return -1
}

// zzString parses a JSON string literal starting at b[i]=='"'; returns decoded bytes and the index after the closing quote, or -1.
func zzString(b []byte, i int) ([]byte, int) {
	if i >= len(b) || b[i] != '"' {
		return nil, -1
	}
	i++
	out := []byte{}
	for i < len(b) {
		c := b[i]
		switch {
		case c == '"':
			return out, i + 1
		case c < 0x20:
			return nil, -1 // raw control character: invalid
		case c == '\\':
			if i+1 >= len(b) {
				return nil, -1
			}
			e := b[i+1]
			i += 2
			switch e {
			case '"', '\\', '/':
				out = append(out, e)
			case 'b':
				out = append(out, '\b')
			case 'f':
				out = append(out, '\f')
			case 'n':
				out = append(out, '\n')
			case 'r':
				out = append(out, '\r')
			case 't':
				out = append(out, '\t')
			case 'u':
				if i+4 > len(b) {
					return nil, -1
				}
				v := 0
				for k := 0; k < 4; k++ {
					h := zzHex(b[i+k])
					if h < 0 {
						return nil, -1
					}
					v = v*16 + h
				}
				i += 4
				if v >= 0x80 {
					return nil, -1 // the harness alphabet only needs \u00XX for ASCII controls
				}
				out = append(out, byte(v))
			default:
				return nil, -1
			}
		default:
			out = append(out, c)
			i++
		}
	}
	return nil, -1
}

func zzDigits(b []byte, i int) int {
	for i < len(b) && b[i] >= '0' && b[i] <= '9' {
		i++
	}
	return i
}

// zzNumber recognises the JSON number grammar at b[i:]; returns the end or -1.
func zzNumber(b []byte, i int) int {
	if i < len(b) && b[i] == '-' {
		i++
	}
	if i >= len(b) {
		return -1
	}
	if b[i] == '0' {
		i++
	} else if b[i] >= '1' && b[i] <= '9' {
		i = zzDigits(b, i)
	} else {
		return -1
	}
	if i < len(b) && b[i] == '.' {
		j := zzDigits(b, i+1)
		if j == i+1 {
			return -1
		}
		i = j
	}
	if i < len(b) && (b[i] == 'e' || b[i] == 'E') {
		j := i + 1
		if j < len(b) && (b[j] == '+' || b[j] == '-') {
			j++
		}
		k := zzDigits(b, j)
		if k == j {
			return -1
		}
		i = k
	}
	return i
}

func zzHasPrefix(b []byte, i int, w string) bool {
	if i+len(w) > len(b) {
		return false
	}
	for k := 0; k < len(w); k++ {
		if b[i+k] != w[k] {
			return false
		}
	}
	return true
}

// zzParseObject parses one JSON object spanning all of b.
func zzParseObject(b []byte) ([]zzMember, bool) {
	i := zzWs(b, 0)
	if i >= len(b) || b[i] != '{' {
		return nil, false
	}
	i = zzWs(b, i+1)
	var ms []zzMember
	if i < len(b) && b[i] == '}' {
		return ms, zzWs(b, i+1) == len(b)
	}
	for {
		k, j := zzString(b, i)
		if j < 0 {
			return nil, false
		}
		i = zzWs(b, j)
		if i >= len(b) || b[i] != ':' {
			return nil, false
		}
		i = zzWs(b, i+1)
		if i >= len(b) {
			return nil, false
		}
		var m zzMember
		m.key = k
		switch {
		case b[i] == '"':
			v, j := zzString(b, i)
			if j < 0 {
				return nil, false
			}
			m.kind, m.val = 's', v
			i = j
		case zzHasPrefix(b, i, "true"):
			m.kind, m.val = 'b', b[i:i+4]
			i += 4
		case zzHasPrefix(b, i, "false"):
			m.kind, m.val = 'b', b[i:i+5]
			i += 5
		default:
			j := zzNumber(b, i)
			if j < 0 {
				return nil, false
			}
			m.kind, m.val = 'n', b[i:j]
			i = j
		}
		ms = append(ms, m)
		i = zzWs(b, i)
		if i >= len(b) {
			return nil, false
		}
		if b[i] == '}' {
			return ms, zzWs(b, i+1) == len(b)
		}
		if b[i] != ',' {
			return nil, false
		}
		i = zzWs(b, i+1)
	}
}

func zzBytesEq(a, b []byte) bool {
	if len(a) != len(b) {
		return false
	}
	for i := range a {
		if a[i] != b[i] {
			return false
		}
	}
	return true
}

func zzFoldEq(a []byte, w string) bool {
	if len(a) != len(w) {
		return false
	}
	for i := range a {
		c := a[i]
		if c >= 'A' && c <= 'Z' {
			c += 'a' - 'A'
		}
		if c != w[i] {
			return false
		}
	}
	return true
}

// zzFaithful: the member m renders the group text g (string: same bytes;
// number: same literal and valid grammar; boolean: g is true/false in any case).
func zzFaithful(m zzMember, g []byte) bool {
	switch m.kind {
	case 's':
		return zzBytesEq(m.val, g)
	case 'n':
		return zzBytesEq(m.val, g)
	case 'b':
		return zzFoldEq(g, string(m.val))
	}
	return false
}
