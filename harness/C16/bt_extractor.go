package extractor

const (
	zzMaxLine   = 3
	zzMaxGroups = 3
)
