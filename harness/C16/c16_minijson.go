package minijson

import (
	zz "rare/pkg/zzverif"
)

var zzHarnesses = map[string]func(){"H16Escape": H16Escape, "H16EscapeAlpha": H16EscapeAlpha, "H16Infer": H16Infer}

// H16Escape: a string member is valid JSON and decodes to the input.
func H16Escape() {
	s := zz.Bytes(zz.Len(zzMaxStr))
	for _, c := range s {
		zz.Assume(c < 0x80)
	}
	zzEscapeCheck(s)
}

// H16EscapeAlpha: longer strings over a representative alphabet.
func H16EscapeAlpha() {
	s := zz.Bytes(zz.Len(zzMaxStrAlpha))
	for _, c := range s {
		zz.Assume(c == 0 || c == 1 || c == 8 || c == '\n' || c == 0x1f || c == ' ' || c == '"' || c == '\\' || c == '/' || c == 'u' || c == 0x7f)
	}
	zzEscapeCheck(s)
}

func zzEscapeCheck(s []byte) {
	var jb JsonObjectBuilder
	jb.Open()
	jb.WriteString("k", string(s))
	jb.Close()
	out := []byte(jb.String())
	ms, ok := zzParseObject(out)
	zz.Assert(ok, "WriteString output is not valid JSON")
	zz.Assert(len(ms) == 1 && zzBytesEq(ms[0].key, []byte("k")), "object does not have exactly the member k")
	zz.Assert(ms[0].kind == 's' && zzBytesEq(ms[0].val, s), "string member does not decode to the input")
	zz.Reached()
}

// H16Infer: an inferred member is valid JSON and denotes the captured text.
func H16Infer() {
	s := zz.Bytes(zz.Len(zzMaxInfer))
	for _, c := range s {
		zz.Assume(c == '0' || c == '1' || c == '9' || c == '.' || c == '-' || c == '+' || c == 'e' || c == 'E' ||
			c == 't' || c == 'T' || c == 'r' || c == 'u' || c == ' ' || c == '"' || c == 1)
	}
	var jb JsonObjectBuilder
	jb.Open()
	jb.WriteInferred("k", string(s))
	jb.WriteInferred("j", "x")
	jb.Close()
	out := []byte(jb.String())
	ms, ok := zzParseObject(out)
	zz.Assert(ok, "WriteInferred output is not valid JSON")
	zz.Assert(len(ms) == 2 && zzBytesEq(ms[0].key, []byte("k")) && zzBytesEq(ms[1].key, []byte("j")), "object does not have exactly the members k, j")
	zz.Assert(zzFaithful(ms[0], s), "inferred member does not denote the captured text")
	zz.Assert(jb.KeyCount() == 2, "key count wrong")
	zz.Reached()
}
