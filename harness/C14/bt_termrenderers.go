package termrenderers

const (
	zzTabCols   = 2
	zzTabWrites = 2
	zzTabCell   = 1
	zzRows      = 3
	zzCols      = 3
	zzHistoKeys = 3
	zzBarSize   = 4
	zzBarKeys   = 3
	zzHeatCells = 4
	zzBarRows   = 2
)
