package termrenderers

const (
	zzTabCols   = 2
	zzTabWrites = 2
	zzTabCell   = 0
	zzRows      = 2
	zzCols      = 2
	zzHistoKeys = 2
	zzBarSize   = 3
	zzBarKeys   = 2
	zzHeatCells = 3
	zzBarRows   = 2
)
