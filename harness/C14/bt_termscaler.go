package termscaler

const zzScaleRange = 16
