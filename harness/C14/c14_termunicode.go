package termunicode

import (
	"rare/pkg/color"
	"rare/pkg/multiterm/termscaler"
	zz "rare/pkg/zzverif"
	"strings"
)

var zzHarnesses = map[string]func(){"H14Index": H14Index, "H14Bars": H14Bars, "H14Range": H14Range}

func zzUnit() float64 {
	u := zz.Float64()
	zz.Assume(u >= 0 && u <= 1)
	return u
}

func zzRunes(s string) int {
	n := 0
	for range s {
		n++
	}
	return n
}

// H14Index: for every scaled magnitude in [0,1] the heatmap / sparkline
// palette lookups and the bar length stay in range, in all four colour /
// unicode modes; a bar is never longer than its maximum width.
func H14Index() {
	color.Enabled = zz.Bool()
	UnicodeEnabled = zz.Bool()
	u := zzUnit()
	var sb strings.Builder
	switch zz.Choice(3) {
	case 0:
		HeatWrite(&sb, u)
		zz.Assert(sb.Len() > 0, "heatmap cell is empty")
	case 1:
		SparkWrite(&sb, u)
		zz.Assert(zzRunes(sb.String()) == 1, "sparkline cell is not one character")
	default:
		maxLen := 1 + zz.Choice(zzBarLen)
		BarWrite(&sb, u, maxLen)
		zz.Assert(zzRunes(sb.String()) <= maxLen, "bar longer than its maximum width")
		if u == 1 {
			zz.Assert(zzRunes(sb.String()) == maxLen, "a full-scale bar does not fill its width")
		}
	}
	color.Enabled, UnicodeEnabled = false, true
	zz.Reached()
}

// H14Range: for every magnitude in [0,1] the palette bucket lies in
// [0, buckets-1] and the bar length in [0, maxLen], 0 maps to 0 and 1 to the
// top (this is what the renderer harnesses assume of Bucket / LengthVal).
func H14Range() {
	u := zzUnit()
	k := []int{4, 9, 10, 16}[zz.Choice(4)]
	b := termscaler.Bucket(k, u)
	zz.Assert(b >= 0 && b <= k-1, "palette bucket out of range")
	n := []int{1, 3, 9, 50, 450}[zz.Choice(5)]
	l := termscaler.LengthVal(n, u)
	zz.Assert(l >= 0 && l <= n, "bar length out of range")
	if u == 0 {
		zz.Assert(b == 0 && l == 0, "magnitude 0 does not map to the first bucket / an empty bar")
	}
	if u == 1 {
		zz.Assert(b == k-1 && l == n, "magnitude 1 does not map to the last bucket / a full bar")
	}
	zz.Reached()
}

// H14Bars: stacked bars as the bar graph draws them: maxVal is the running
// maximum of the row totals (never below a row's total, never negative).
// No panic for any values; with non-negative segments the segments have
// floor(val*maxLen/maxVal) blocks each, so the bar never exceeds maxLen.
func H14Bars() {
	color.Enabled = zz.Bool()
	UnicodeEnabled = zz.Bool()
	n := 1 + zz.Choice(zzBarVals)
	vals := make([]int64, n)
	var total int64
	for i := range vals {
		vals[i] = zz.Int64()
		total += vals[i]
	}
	maxVal := zz.Int64()
	zz.Assume(maxVal >= 0 && maxVal >= total) // what BarGraph.writeBarStacked guarantees
	maxLen := int64(1 + zz.Choice(zzBarLen))
	var sb strings.Builder
	BarWriteStacked(&sb, maxVal, maxLen, vals...)
	out := sb.String()
	if !color.Enabled {
		nonNeg := true
		var exact int64
		noWrap := true
		var sum int64
		for _, v := range vals {
			if v < 0 {
				nonNeg = false
			}
		}
		if nonNeg && maxVal > 0 {
			for _, v := range vals {
				if sum > maxVal-v {
					noWrap = false // the total wrapped around: outside what a row can hold
				}
				sum += v
			}
			if noWrap {
				for _, v := range vals {
					// floor(v*maxLen/maxVal) without overflow: v = q*maxVal + r
					q, r := v/maxVal, v%maxVal
					blocks := q * maxLen
					for j := int64(0); j < maxLen; j++ { // r*maxLen/maxVal by repeated comparison
						// count multiples: (j+1)*maxVal <= r*maxLen  <=>  (j+1)*maxVal/maxLen <= r (ceil)
						need := ((j+1)*(maxVal/maxLen) + ((j+1)*(maxVal%maxLen)+maxLen-1)/maxLen)
						if need <= r {
							blocks++
						}
					}
					exact += blocks
				}
				zz.Assert(int64(zzRunes(out)) == exact, "stacked bar does not have floor(val*width/max) blocks per segment")
				zz.Assert(int64(zzRunes(out)) <= maxLen, "stacked bar longer than its maximum width")
			}
		}
	}
	color.Enabled, UnicodeEnabled = false, true
	zz.Reached()
}
