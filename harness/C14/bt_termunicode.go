package termunicode

const (
	zzBarLen  = 5
	zzBarVals = 3
)
