package termscaler

const zzScaleRange = 8
