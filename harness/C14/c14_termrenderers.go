package termrenderers

import (
	"rare/pkg/aggregation"
	"rare/pkg/aggregation/sorting"
	"rare/pkg/color"
	"rare/pkg/multiterm"
	"rare/pkg/multiterm/termscaler"
	"rare/pkg/multiterm/termunicode"
	zz "rare/pkg/zzverif"
	"strings"
)

var zzHarnesses = map[string]func(){"H14TableAlign": H14TableAlign, "H14Heatmap": H14Heatmap, "H14Spark": H14Spark,
	"H14DataTable": H14DataTable, "H14Histo": H14Histo, "H14BarGraph": H14BarGraph}

// ---- environment stubs (gosym redirects; natively the real functions run) ----

// zzScaleStub stands for Scaler.Scale: some magnitude. In these harnesses the
// magnitude is only handed on to Bucket / LengthVal (stubbed below), so its
// value is immaterial here; that it lies in [0,1] is decided in the
// termscaler harnesses (clamps for all int64, the linear part on a window).
func zzScaleStub(s termscaler.Scaler, val, min, max int64) float64 {
	return zz.Float64()
}

// zzBucketStub / zzLengthStub stand for termscaler.Bucket / LengthVal: any
// index in range (H14Range decides the range for every magnitude in [0,1]).
func zzBucketStub(buckets int, u float64) int { return zz.IntRange(0, buckets-1) }
func zzLengthStub(maxLen int, u float64) int  { return zz.IntRange(0, maxLen) }

// zzScaleKeysStub stands for Scaler.ScaleKeys (legend values): the minimum and one arbitrary value.
func zzScaleKeysStub(s termscaler.Scaler, buckets, min, max int64) []int64 {
	return []int64{min, zz.Int64()}
}

// ---- helpers ----

var zzNames = []string{"a", "", "bc", "é", "\x1b[1mx\x1b[0m"}

// zzFmt is the formatter under which numbers are displayed: one letter that
// identifies the value modulo 26 (a decimal rendering of a symbolic number
// would have to be materialised digit by digit wherever the renderers measure
// it). Equal values give equal letters, so a correct renderer always passes;
// a renderer that shows another number is caught for all values whose
// residues differ - the solver picks such values.
func zzFmt(val, min, max int64) string { return string([]byte{byte('A' + uint64(val)%26)}) }

func zzModes() {
	color.Enabled = zz.Bool()
	termunicode.UnicodeEnabled = zz.Bool()
}

func zzRestore() {
	color.Enabled, termunicode.UnicodeEnabled = false, true
}

// visible length: runes outside ESC...m sequences (what a terminal shows)
// (with colour disabled nothing is interpreted: every rune counts, as documented for color.StrLen)
func zzVisible(s string) int {
	n, in := 0, false
	for _, r := range s {
		switch {
		case !color.Enabled:
			n++
		case r == '\x1b':
			in = true
		case in && r == 'm':
			in = false
		case !in:
			n++
		}
	}
	return n
}

// strip ESC...m sequences
func zzStrip(s string) string {
	var sb strings.Builder
	in := false
	for _, r := range s {
		switch {
		case r == '\x1b':
			in = true
		case in && r == 'm':
			in = false
		case !in:
			sb.WriteRune(r)
		}
	}
	return sb.String()
}

// zzTable builds a table aggregator of nr x nc cells with arbitrary int64
// values over the name pool; one cell (first row, last column) may be absent.
func zzTable(nr, nc int) *aggregation.TableAggregator {
	t := aggregation.NewTable("\x00")
	for r := 0; r < nr; r++ {
		for c := 0; c < nc; c++ {
			if r == 0 && c == nc-1 && nc > 1 && nr > 1 && zz.Bool() {
				continue
			}
			t.SampleItem(zzNames[c], zzNames[(r+1)%len(zzNames)], zz.Int64())
		}
	}
	return t
}

// ---- harnesses ----

// H14TableAlign: whatever cells are written in whatever order (cells with
// colour codes and multi-byte characters included), every stored line has
// its i-th column starting at the same visible offset, and shows its cells.
func H14TableAlign() {
	color.Enabled = zz.Bool()
	maxCols := 1 + zz.Choice(zzTabCols)
	const maxRows = 2
	vt := multiterm.NewVirtualTerm()
	tw := NewTable(vt, maxCols, maxRows)
	last := make([][]string, maxRows)
	width := make([]int, maxCols)
	for k := 0; k < zzTabWrites; k++ {
		row := zz.Choice(maxRows + 1)
		nc := maxCols - 1 + zz.Choice(3)
		cells := make([]string, nc)
		for i := range cells {
			if i >= maxCols {
				cells[i] = "x" // beyond the table's columns: never drawn
				continue
			}
			b := zz.Byte()
			zz.Assume(b >= 0x20 && b < 0x7f)
			switch zz.Choice(5 + zzTabCell) {
			case 0:
				cells[i] = ""
			case 1:
				cells[i] = string([]byte{b})
			case 2:
				d := zz.Byte()
				zz.Assume(d >= '0' && d <= '7')
				cells[i] = "\x1b[3" + string([]byte{d}) + "m" + string([]byte{b}) + "\x1b[0m"
			case 3:
				cells[i] = "\u00e9" + string([]byte{b})
			case 4:
				cells[i] = "\x1b" + string([]byte{b}) // an escape sequence that may or may not end
			default:
				b2 := zz.Byte()
				zz.Assume(b2 >= 0x20 && b2 < 0x7f)
				cells[i] = string([]byte{b, b2})
			}
		}
		tw.WriteRow(row, cells...)
		if row < maxRows {
			last[row] = cells
			// column widths are high-water marks over everything written so far
			for i := 0; i < len(cells) && i < maxCols; i++ {
				if v := zzVisible(cells[i]); v > width[i] {
					width[i] = v
				}
			}
		}
	}
	for r, cells := range last {
		if cells == nil {
			continue
		}
		line := vt.Get(r)
		var want strings.Builder
		for i := 0; i < len(cells) && i < maxCols; i++ {
			want.WriteString(cells[i])
			for j := zzVisible(cells[i]); j < width[i]; j++ {
				want.WriteByte(' ')
			}
			want.WriteByte(' ')
		}
		zz.Assert(line == want.String(), "table line is not its cells padded to the common column widths")
	}
	color.Enabled = false
	zz.Reached()
}

// H14Heatmap: any table, any row/column limits >= 0: no panic; one cell per
// displayed column in every displayed row; '(n more)' notes count what is not shown.
func H14Heatmap() {
	variant := zz.Choice(4)
	color.Enabled = variant >= 2
	termunicode.UnicodeEnabled = variant != 3
	nr, nc := 1+zz.Choice(zzRows), 1+zz.Choice(zzCols)
	if nr+nc > zzHeatCells {
		return
	}
	t := zzTable(nr, nc)
	rowLim, colLim := zz.IntRange(0, zzRows+1), zz.IntRange(0, zzCols+1)
	vt := multiterm.NewVirtualTerm()
	h := NewHeatmap(vt, rowLim, colLim)
	h.Formatter = zzFmt
	keyW := 0
	if variant == 0 {
		// fixed range given on the command line: cells may lie outside it; one render
		h.FixedMin, h.FixedMax = true, true
		h.UpdateMinMax(zz.Int64(), zz.Int64())
		h.WriteTable(t, sorting.NVNameSorter, sorting.NVNameSorter)
	} else {
		// range from the data; two refreshes (the second is padded to the widest key of the first)
		h.WriteTable(t, sorting.NVNameSorter, sorting.NVNameSorter)
		keyW = h.maxRowKeyWidth
		h.WriteTable(t, sorting.NVNameSorter, sorting.NVNameSorter)
	}
	rows, cols := t.RowCount(), t.ColumnCount()
	shownR, shownC := rows, cols
	if shownR > rowLim {
		shownR = rowLim
	}
	if shownC > colLim {
		shownC = colLim
	}
	ordered := t.OrderedRows(sorting.NVNameSorter)
	for i := 0; i < shownR; i++ {
		if v := zzVisible(ordered[i].Name()); v > keyW {
			keyW = v
		}
		line := vt.Get(2 + i)
		zz.Assert(zzVisible(line) == keyW+1+shownC, "heatmap row does not have one cell per displayed column after the key column")
	}
	if rows > shownR {
		zz.Assert(zzStrip(vt.Get(2+shownR)) == "("+zz.IntStr(int64(rows-shownR))+" more)", "heatmap '(n more)' row note is not the number of rows not shown")
	}
	hdr := zzStrip(vt.Get(1))
	if cols > shownC {
		zz.Assert(strings.HasSuffix(hdr, " ("+zz.IntStr(int64(cols-shownC))+" more)"), "heatmap '(n more)' column note is not the number of columns not shown")
	} else {
		zz.Assert(!strings.Contains(hdr, "more)"), "heatmap header has a '(n more)' note although every column is shown")
	}
	zzRestore()
	zz.Reached()
}

// H14Spark: as H14Heatmap for the sparkline renderer.
func H14Spark() {
	zzModes()
	nr, nc := 1+zz.Choice(zzRows), 1+zz.Choice(zzCols)
	if nr+nc > zzHeatCells {
		return
	}
	t := zzTable(nr, nc)
	rowLim, colLim := zz.IntRange(0, zzRows+1), zz.IntRange(0, zzCols+1)
	vt := multiterm.NewVirtualTerm()
	sp := NewSpark(vt, rowLim, colLim)
	sp.Formatter = zzFmt
	passes := 1 + zz.Choice(2)
	for p := 0; p < passes; p++ {
		sp.WriteTable(t, sorting.NVNameSorter, sorting.NVNameSorter)
	}
	rows, cols := t.RowCount(), t.ColumnCount()
	shownR, shownC := rows, cols
	if shownR > rowLim {
		shownR = rowLim
	}
	if shownC > colLim {
		shownC = colLim
	}
	if shownC == 0 {
		shownR = 0 // without a column there is nothing to draw for a row: all rows count as not shown
	}
	ordered := t.OrderedRows(sorting.NVNameSorter)
	ocols := t.OrderedColumns(sorting.NVNameSorter)
	for i := 0; i < shownR; i++ {
		cells := sp.table.rows[i+1]
		zz.Assert(len(cells) == 4, "sparkline row does not have name, first, line, last")
		zz.Assert(zzVisible(cells[2]) == shownC, "sparkline does not have one cell per displayed column")
		zz.Assert(zzStrip(cells[0]) == zzStrip(ordered[i].Name()), "sparkline row name differs")
		zz.Assert(zzStrip(cells[1]) == zzFmt(ordered[i].Value(ocols[cols-shownC]), 0, 0), "sparkline 'first' is not the value of the first displayed column")
		zz.Assert(zzStrip(cells[3]) == zzFmt(ordered[i].Value(ocols[cols-1]), 0, 0), "sparkline 'last' is not the value of the last column")
	}
	if rows > shownR {
		zz.Assert(zzStrip(vt.Get(sp.table.activeRows)) == "("+zz.IntStr(int64(rows-shownR))+" more)", "sparkline '(n more)' note is not the number of rows not shown")
	}
	zzRestore()
	zz.Reached()
}

// H14DataTable: displayed numbers are the aggregated numbers (cells, row
// totals, column totals, grand total) under the formatter, for any limits.
func H14DataTable() {
	color.Enabled = zz.Bool()
	nr, nc := 1+zz.Choice(zzRows), 1+zz.Choice(zzCols)
	t := zzTable(nr, nc)
	rowLim, colLim := zz.IntRange(0, zzRows+1), zz.IntRange(0, zzCols+1)
	vt := multiterm.NewVirtualTerm()
	dt := NewDataTable(vt, colLim, rowLim)
	dt.SetFormatter(zzFmt)
	dt.ShowRowTotals, dt.ShowColTotals = zz.Bool(), zz.Bool()
	dt.WriteTable(t, sorting.NVNameSorter, sorting.NVNameSorter)
	rows, cols := t.RowCount(), t.ColumnCount()
	shownR, shownC := rows, cols
	if shownR > rowLim {
		shownR = rowLim
	}
	if shownC > colLim {
		shownC = colLim
	}
	ordered := t.OrderedRows(sorting.NVNameSorter)
	ocols := t.OrderedColumns(sorting.NVNameSorter)
	hdr := dt.table.rows[0]
	zz.Assert(len(hdr) == shownC+2, "data table header does not have one cell per displayed column")
	for c := 0; c < shownC; c++ {
		zz.Assert(zzStrip(hdr[c+1]) == zzStrip(ocols[c]), "data table header name differs")
	}
	for i := 0; i < shownR; i++ {
		cells := dt.table.rows[i+1]
		zz.Assert(len(cells) == shownC+2, "data table row does not have one cell per displayed column")
		zz.Assert(zzStrip(cells[0]) == zzStrip(ordered[i].Name()), "data table row name differs")
		for c := 0; c < shownC; c++ {
			zz.Assert(cells[c+1] == zzFmt(ordered[i].Value(ocols[c]), 0, 0), "data table cell is not the aggregated value")
		}
		if dt.ShowRowTotals {
			zz.Assert(zzStrip(cells[shownC+1]) == zzFmt(ordered[i].Sum(), 0, 0), "data table row total is not the row's sum")
		}
	}
	if dt.ShowColTotals {
		cells := dt.table.rows[shownR+1]
		for c := 0; c < shownC; c++ {
			zz.Assert(zzStrip(cells[c+1]) == zzFmt(t.ColTotal(ocols[c]), 0, 0), "data table column total is not the column's sum")
		}
		if dt.ShowRowTotals {
			zz.Assert(zzStrip(cells[shownC+1]) == zzFmt(t.Sum(), 0, 0), "data table grand total is not the table's sum")
		}
	}
	color.Enabled = false
	zz.Reached()
}

// H14Histo: the histogram as `rare histo` drives it (sorted items, limit,
// at-least filter), rendered once or twice with more data in between: no
// panic for any counts (zero, negative, huge), every shown line carries its
// key and its count under the formatter, and its bar is at most 50 wide.
func H14Histo() {
	zzModes()
	limit := zz.Choice(zzHistoKeys + 2)
	atLeast := int64(zz.IntRange(-1, 2))
	vt := multiterm.NewVirtualTerm()
	hw := NewHistogram(vt, limit)
	hw.Formatter = zzFmt
	hw.ShowBar, hw.ShowPercentage = zz.Bool(), false // the percentage is a float rendering through fmt: outside the claim
	counter := aggregation.NewCounter()
	passes := 1 + zz.Choice(2)
	if hw.ShowBar {
		passes = 1
	}
	for p := 0; p < passes; p++ {
		n := 1 + zz.Choice(zzHistoKeys)
		if hw.ShowBar {
			n = 1 // a 50-wide bar is one fork per block: one bar per run
		}
		for i := 0; i < n; i++ {
			counter.SampleValue(zzNames[i], zz.Int64())
		}
		// cmd/histo.go writeHistoOutput
		items := counter.ItemsSortedBy(limit, sorting.NVNameSorter)
		line := 0
		hw.UpdateTotal(counter.Total())
		for _, match := range items {
			count := match.Item.Count()
			if count >= atLeast {
				hw.WriteForLine(line, match.Name, count)
				txt := zzStrip(vt.Get(line))
				zz.Assert(strings.HasPrefix(txt, zzStrip(match.Name)), "histogram line does not start with its key")
				zz.Assert(strings.Contains(txt, "    "+zzFmt(count, 0, 0)+"         "), "histogram line does not show its count under the formatter")
				line++
			}
		}
	}
	zzRestore()
	zz.Reached()
}

// H14BarGraph: grouped and stacked bar graphs fed row by row (as `rare bars`
// does on every refresh): no panic for any values; a bar never exceeds BarSize.
func H14BarGraph() {
	zzModes()
	vt := multiterm.NewVirtualTerm()
	bg := NewBarGraph(vt)
	bg.Formatter = zzFmt
	bg.Stacked = zz.Bool()
	bg.BarSize = 1 + zz.Choice(zzBarSize)
	nk := 1 + zz.Choice(zzBarKeys)
	if !bg.Stacked {
		bg.BarSize, nk = 1+zz.Choice(2), 1 // grouped bars: one fork per block drawn
	}
	bg.SetKeys(zzNames[:nk]...)
	nrows := 1 + zz.Choice(zzBarRows)
	nonNeg := true
	rowsVals := make([][]int64, nrows)
	for r := 0; r < nrows; r++ {
		vals := make([]int64, nk)
		rowsVals[r] = vals
		var sum int64
		for i := range vals {
			vals[i] = zz.Int64()
			if vals[i] <= -(1<<60) || vals[i] >= 1<<60 {
				nonNeg = false // a row total that could wrap around int64: no width claim
			}
			sum += vals[i]
		}
		bg.WriteBar(r, zzNames[(r+2)%4], vals...)
	}
	if bg.Stacked && nonNeg {
		for r := 0; r < nrows; r++ {
			// key column (4 wide: keys here are shorter), two blanks, bar, two blanks, total (one letter)
			barLen := zzVisible(vt.Get(bg.prefixLines+r)) - 4 - 2 - 2 - 1
			zz.Assert(barLen >= 0 && barLen <= bg.BarSize, "stacked bar longer than its maximum width")
			// proportional: every row on screen is drawn against the scale in force at the end
			// (segment i has floor(v_i * BarSize / max) blocks; negative segments none)
			want := 0
			if bg.maxLineVal > 0 {
				for _, v := range rowsVals[r] {
					if v <= 0 {
						continue
					}
					if v > bg.maxLineVal {
						v = bg.maxLineVal
					}
					for k := 1; k <= bg.BarSize; k++ {
						if int64(k)*bg.maxLineVal <= v*int64(bg.BarSize) {
							want++
						}
					}
				}
			}
			zz.Assert(barLen == want, "a stacked bar on screen is not drawn against the current scale (not proportional to its values)")
		}
	}
	zzRestore()
	zz.Reached()
}
