package termunicode

const (
	zzBarLen  = 3
	zzBarVals = 2
)
