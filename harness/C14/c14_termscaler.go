package termscaler

import (
	zz "rare/pkg/zzverif"
)

var zzHarnesses = map[string]func(){"H14ScaleClamp": H14ScaleClamp, "H14ScaleLinear": H14ScaleLinear, "H14ScaleDegenerate": H14ScaleDegenerate}

func zzScaler() Scaler {
	switch zz.Choice(3) {
	case 0:
		return ScalerLinear
	case 1:
		return ScalerLog2
	}
	return ScalerLog10
}

// H14ScaleClamp: the clamps of Scale for every scaler and every int64
// triple: an inverted range and values below the range give 0, values above
// the range give 1 - whatever the floating-point part would do.
func H14ScaleClamp() {
	s := zzScaler()
	val, min, max := zz.Int64(), zz.Int64(), zz.Int64()
	zz.Assume(max < min || val < min || val > max)
	u := s.Scale(val, min, max)
	if max < min || val < min {
		zz.Assert(u == 0, "value below the range (or inverted range) does not scale to 0")
	} else {
		zz.Assert(u == 1, "value above the range does not scale to 1")
	}
	zz.Reached()
}

// H14ScaleDegenerate: a range of one value (min == max), anywhere in int64
// including the extremes where min+1 is not representable: the magnitude is
// a number in [0,1], never NaN or infinite.
func H14ScaleDegenerate() {
	min := zz.Int64()
	u := ScalerLinear.Scale(min, min, min)
	zz.Assert(u >= 0 && u <= 1, "degenerate range: magnitude outside [0,1] (or NaN)")
	zz.Reached()
}

// H14ScaleLinear: linear scale on a small integer window (where the back
// end can decide the floating-point division): magnitude in [0,1], 0 at min,
// 1 at max. (For the whole int64 range this is an assumption of the
// renderer harnesses, see DESIGN.)
func H14ScaleLinear() {
	min := int64(zz.IntRange(-zzScaleRange, zzScaleRange))
	max := int64(zz.IntRange(-zzScaleRange, zzScaleRange))
	val := int64(zz.IntRange(-zzScaleRange, zzScaleRange))
	zz.Assume(min <= val && val <= max)
	u := ScalerLinear.Scale(val, min, max)
	zz.Assert(u >= 0, "linear magnitude below 0 (or NaN)")
	zz.Assert(u <= 1, "linear magnitude above 1 (or NaN)")
	if min < max {
		if val == min {
			zz.Assert(u == 0, "the minimum does not scale to 0")
		}
		if val == max {
			zz.Assert(u == 1, "the maximum does not scale to 1")
		}
	}
	zz.Reached()
}
