package stdlib

const (
	zzMaxArity     = 3
	zzKinds        = 6
	zzAllInts      = true
	zzLoopBound    = 8
	zzLoopBoundGen = 3
	zzMaxOptArgs   = 3
)
