package funcfile

import (
	"strings"

	"rare/pkg/expressions"
	zz "rare/pkg/zzverif"
)

var zzHarnesses = map[string]func(){"H10FuncFile": H10FuncFile, "H10Reenter": H10Reenter, "H10Par": H10Par}

func zzFuncs(kb *expressions.KeyBuilder) {
	kb.Func("cat", func(args []expressions.KeyBuilderStage) (expressions.KeyBuilderStage, error) {
		return func(c expressions.KeyBuilderContext) string {
			s := ""
			for i, a := range args {
				if i > 0 {
					s += "|"
				}
				s += a(c)
			}
			return s
		}, nil
	})
	kb.Func("first", func(args []expressions.KeyBuilderStage) (expressions.KeyBuilderStage, error) {
		return func(c expressions.KeyBuilderContext) string {
			for _, a := range args {
				if v := a(c); v != "" {
					return v
				}
			}
			return ""
		}, nil
	})
}

// zzLayout prints "name body" in one of the layouts the format allows:
// plain, after comments and blank lines, with an inline comment, and with
// the body continued over several lines (split at a blank, with comment and
// blank lines in between).
func zzLayout(name, body string) string {
	parts := strings.Split(body, " ")
	switch zz.Choice(5) {
	case 0:
		return name + " " + body + "\n"
	case 1:
		return "# a comment\n\n   \n" + name + " " + body + "\n"
	case 2:
		return name + " " + body + " # trailing comment\n"
	case 3:
		if len(parts) < 2 {
			return "\t" + name + " " + body + "  \n"
		}
		return name + " " + parts[0] + " \\\n    " + strings.Join(parts[1:], " ") + "\n"
	default:
		if len(parts) < 2 {
			return name + " " + body + "\n# end" + "\n"
		}
		return name + " " + parts[0] + " \\ # why\n\n  # comment in the middle\n" + strings.Join(parts[1:], " ") + "\n\n"
	}
}

// zzSubst is the reference meaning of a call: the body with {0} {1} replaced
// by the argument texts (missing arguments are empty).
func zzSubst(body string, args []string) string { return zzSubstAt(body, args, 0) }

// zzSubstAt: base is the brace depth the body text will be pasted at.
func zzSubstAt(body string, args []string, base int) string {
	out := ""
	depth := base
	for i := 0; i < len(body); i++ {
		c := body[i]
		if c == '{' && i+2 < len(body) && body[i+1] >= '0' && body[i+1] <= '2' && body[i+2] == '}' {
			k := int(body[i+1] - '0')
			a := "\"\""
			if k < len(args) {
				a = args[k]
			}
			if depth == 0 && len(a) >= 2 && a[0] == '"' {
				a = a[1 : len(a)-1] // literal position: the quotes only delimit an argument
			}
			out += a
			i += 2
			continue
		}
		if c == '{' {
			depth++
		}
		if c == '}' {
			depth--
		}
		out += string([]byte{c})
	}
	return out
}

// H10FuncFile: a function loaded from a funcs file behaves exactly like its
// body written inline, for every layout, for definitions that call earlier
// definitions, with named keys resolved in the caller's match and missing
// arguments empty.
func H10FuncFile() {
	bodies := []string{"{cat {0} {1}}", "{first {1} {0} {k}}", "{cat {k} {0} x}", "{0}", "lit-{1}-{src}", "{cat {cat {1} {0}} {2}}"}
	b1 := bodies[zz.Choice(len(bodies))]
	b2 := "{cat {f1 {1} {0}} {0}}"
	file := zzLayout("f1", b1) + zzLayout("f2", b2)
	optimize := zz.Choice(2) == 0
	kb := expressions.NewKeyBuilderEx(optimize)
	zzFuncs(kb)
	if !zz.Symbolic() {
		zz.Note(file)
	}
	fns, err := LoadDefinitions(kb, strings.NewReader(file), "mem")
	zz.Assert(err == nil, "a well-formed funcs file does not load")
	_, has1 := fns["f1"]
	_, has2 := fns["f2"]
	zz.Assert(has1 && has2 && len(fns) == 2, "definitions lost or invented")

	argTexts := []string{"{0}", "{1}", "{k}", "a", "\"\"", "\"b c\"", "{cat {0} z}"}
	na := zz.Choice(3)
	var args []string
	call := "{f1"
	if zz.Choice(2) == 1 {
		call = "{f2"
	}
	which := call[1:]
	nestable := b1[0] == '{' && b1 != "{0}"
	for i := 0; i < na; i++ {
		k := zz.Choice(len(argTexts) + 1)
		if k == len(argTexts) {
			// an argument that is itself a call of a funcs-file function (the
			// same pooled argument context is needed twice at the same time)
			zz.Assume(nestable)
			args = append(args, zzSubstAt(b1, []string{"{1}", "q"}, 1))
			call += " {f1 {1} q}"
			continue
		}
		a := argTexts[k]
		args = append(args, a)
		call += " " + a
	}
	if na == 0 {
		call += " \"\"" // a call needs at least one argument to be a call
		args = append(args, "\"\"")
	}
	call += "}"

	inline := zzSubst(b1, args)
	if which == "f2" {
		zz.Assume(b1[0] == '{' && b1 != "{0}") // nested reference substitution is only spelled out for statement bodies
		inner := zzSubstAt(b1, []string{args1(args, 1), args1(args, 0)}, 1)
		if inner == "" || strings.ContainsAny(inner, " -") && inner[0] != '{' && inner[0] != '"' {
			inner = "\"" + inner + "\"" // literal text pasted as one argument
		}
		inline = strings.ReplaceAll(zzSubst("{cat @@ {0}}", args), "@@", inner)
	}

	ref := expressions.NewKeyBuilderEx(optimize)
	zzFuncs(ref)
	if !zz.Symbolic() {
		zz.Note(call + " vs " + inline)
	}
	c1, e1 := kb.Compile("<" + call + ">")
	c2, e2 := ref.Compile("<" + inline + ">")
	zz.Assert(e1 == nil && e2 == nil && c1 != nil && c2 != nil, "call or inline body does not compile")
	ctx := &expressions.KeyBuilderContextArray{Elements: []string{zz.String(1), zz.String(1)}, Keys: map[string]string{"k": zz.String(1), "src": "S"}}
	zz.Assert(c1.BuildKey(ctx) == c2.BuildKey(ctx), "a funcs-file function differs from its body written inline")
	zz.Reached()
}

func args1(a []string, i int) string {
	if i < len(a) {
		return a[i]
	}
	return "\"\""
}

// zzGateCtx: a match whose key "gate", when looked up, lets a second
// evaluator run the same compiled expression to completion on another match
// (the schedule "B runs while A is suspended inside the call").
type zzGateCtx struct {
	elems []string
	other func() string
	got   string
}

func (c *zzGateCtx) GetMatch(i int) string {
	if i >= 0 && i < len(c.elems) {
		return c.elems[i]
	}
	return ""
}
func (c *zzGateCtx) GetKey(k string) string {
	if k == "gate" && c.other != nil {
		f := c.other
		c.other = nil
		c.got = f()
	}
	return ""
}

// H10Reenter: two evaluators inside the same funcs-file call site at once
// each see their own match.
func H10Reenter() {
	bodies := []string{"<{0}{gate}|{0}>", "{cat {0} {gate} {1} {0}}", "{gate}{cat {1} {0}}"}
	b := bodies[zz.Choice(len(bodies))]
	kb := expressions.NewKeyBuilderEx(zz.Choice(2) == 0)
	zzFuncs(kb)
	_, err := LoadDefinitions(kb, strings.NewReader("wrap "+b+"\n"), "mem")
	zz.Assert(err == nil, "funcs file does not load")
	calls := []string{"{wrap {1} {0}}", "{wrap {0} x}", "{wrap {cat {1} y} {1}}"}
	call := calls[zz.Choice(len(calls))]
	c1, e1 := kb.Compile(call)
	zz.Assert(e1 == nil && c1 != nil, "call does not compile")
	a := &zzGateCtx{elems: []string{zz.String(1), zz.String(1)}}
	bb := &zzGateCtx{elems: []string{zz.String(1), zz.String(1)}}
	aloneA := c1.BuildKey(&zzGateCtx{elems: a.elems})
	aloneB := c1.BuildKey(&zzGateCtx{elems: bb.elems})
	a.other = func() string { return c1.BuildKey(bb) }
	gotA := c1.BuildKey(a)
	zz.Assert(a.other == nil, "the gate was not reached")
	zz.Assert(a.got == aloneB, "the second evaluator's result depends on the evaluator it interrupted")
	zz.Assert(gotA == aloneA, "an evaluator interrupted inside a funcs-file call sees another evaluator's match")
	zz.Reached()
}

// H10Par: the same compiled funcs-file call evaluated by two goroutines at
// once on different matches (two extractor workers): each gets its own
// result, and the call site's pooled argument context is used without a data
// race - under every interleaving within the bound (engine scheduler and
// happens-before monitor; native witness: go test -race).
func H10Par() {
	bodies := []string{"<{0}{gate}|{0}>", "{cat {0} {gate} {1} {0}}", "{gate}{cat {1} {0}}"}
	b := bodies[zz.Choice(len(bodies))]
	kb := expressions.NewKeyBuilderEx(zz.Choice(2) == 0)
	zzFuncs(kb)
	_, err := LoadDefinitions(kb, strings.NewReader("wrap "+b+"\n"), "mem")
	zz.Assert(err == nil, "funcs file does not load")
	calls := []string{"{wrap {1} {0}}", "{wrap {0} x}", "{wrap {cat {1} y} {1}}"}
	c1, e1 := kb.Compile(calls[zz.Choice(len(calls))])
	zz.Assert(e1 == nil && c1 != nil, "call does not compile")
	ctxs := []*zzYieldCtx{{elems: []string{"a", "b"}}, {elems: []string{"c", "d"}}}
	want := []string{c1.BuildKey(&zzGateCtx{elems: ctxs[0].elems}), c1.BuildKey(&zzGateCtx{elems: ctxs[1].elems})}
	zz.Concurrent(1, zzParPreempt, 0)
	zz.RaceMonitor(true)
	got := make([]string, 2)
	done := make(chan bool)
	for i := 0; i < 2; i++ {
		go func(i int) {
			got[i] = c1.BuildKey(ctxs[i])
			done <- true
		}(i)
	}
	<-done
	<-done
	zz.Assert(got[0] == want[0] && got[1] == want[1], "a funcs-file call evaluated concurrently returns another match's result")
	zz.Reached()
}

// a match whose {gate} key takes time to look up
type zzYieldCtx struct{ elems []string }

func (c *zzYieldCtx) GetMatch(i int) string {
	if i >= 0 && i < len(c.elems) {
		return c.elems[i]
	}
	return ""
}
func (c *zzYieldCtx) GetKey(k string) string {
	if k == "gate" {
		zz.Yield()
	}
	return ""
}

const zzParPreempt = 1
