package stdlib

const (
	zzMaxArity     = 2
	zzKinds        = 3
	zzAllInts      = false
	zzLoopBound    = 6
	zzLoopBoundGen = 2
	zzMaxOptArgs   = 2
)
