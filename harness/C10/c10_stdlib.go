package stdlib

import (
	"sort"

	. "rare/pkg/expressions" //lint:ignore ST1001 same as the package
	zz "rare/pkg/zzverif"
)

var zzHarnesses = map[string]func(){"H10ConstVar": H10ConstVar, "H10Probe": H10Probe, "H10Opt": H10Opt, "H10Live": H10Live}

type zzCtx struct {
	vals []string
	key  string
}

func (c *zzCtx) GetMatch(i int) string {
	if i >= 0 && i < len(c.vals) {
		return c.vals[i]
	}
	return ""
}

func (c *zzCtx) GetKey(k string) string {
	if k == "k" {
		return c.key
	}
	if len(k) == 2 && k[0] == 'a' && int(k[1]-'0') < len(c.vals) {
		return c.vals[k[1]-'0']
	}
	return ErrorArgName
}

// zzVar: the value of argument i read from the match by name (named keys are
// resolved in the enclosing match also inside @map/@filter/@reduce/@for
// sub-expressions, where {0} {1} are rebound).
func zzVar(i int) KeyBuilderStage {
	name := "a" + string([]byte{byte('0' + i)})
	return func(c KeyBuilderContext) string { return c.GetKey(name) }
}

func zzArg(i int) KeyBuilderStage { return func(c KeyBuilderContext) string { return c.GetMatch(i) } }
func zzLit(s string) KeyBuilderStage { return func(c KeyBuilderContext) string { return s } }

var zzOpaque = map[string]string{
	"json": "gjson", "time": "time", "timeformat": "time", "timeattr": "time", "buckettime": "time",
	"duration": "time", "durationformat": "time", "load": "file I/O", "lookup": "file I/O", "haskey": "file I/O",
	"format": "fmt.Sprintf",
}

func zzFuncNames() []string {
	var names []string
	for k := range StandardFunctions {
		if _, skip := zzOpaque[k]; !skip {
			names = append(names, k)
		}
	}
	sort.Strings(names)
	return names
}

func zzInt() int64 {
	v := zz.Int64()
	if !zzAllInts {
		switch zz.Choice(3) {
		case 0:
			zz.Assume(v > -1000)
			zz.Assume(v < 1000)
		case 1:
			zz.Assume(v > 9223372036854775807-3)
		default:
			zz.Assume(v < -9223372036854775807+3)
		}
	}
	return v
}

func zzValue() string {
	switch zz.Choice(zzKinds) {
	case 0:
		return ""
	case 1:
		return zz.IntStr(zzInt())
	case 2:
		return zz.String(1)
	case 3:
		return zz.FloatStr(zz.Float64())
	case 4:
		return " "
	default:
		return zz.String(2)
	}
}

func zzModes() {
	zz.AbstractFloatText(true)
	zz.AbstractFloatArith(true)
	zz.OpaqueParseFloat(true)
	zz.LoopBound(zzLoopBound)
}

// zzConstOnly: parameters documented as constants for which a variable is
// silently replaced by the default (EvalStageIndexOrDefault): there is no
// run-time evaluation to compare the folded value with.
var zzConstOnly = map[string]int{"@split": 1, "@join": 1, "@reduce": 2}

// H10ConstVar: for every helper, arity and argument values, the stage built
// from constant arguments (compile-time folding, typed pre-parsing) returns
// what the stage built from context lookups bound to the same values returns,
// whenever both constructors accept their arguments.
func H10ConstVar() {
	zzModes()
	names := zzFuncNames()
	name := names[zz.Choice(len(names))]
	zz.Note(name)
	if name == "@range" || name == "@for" {
		zz.LoopBound(zzLoopBoundGen)
	}
	f := StandardFunctions[name]
	n := 1 + zz.Choice(zzMaxArity)
	a := make([]KeyBuilderStage, n)
	b := make([]KeyBuilderStage, n)
	ctx := &zzCtx{vals: make([]string, n), key: "v"}
	anyConst := false
	var consts []int
	for i := 0; i < n; i++ {
		v := zzValue()
		ctx.vals[i] = v
		b[i] = zzVar(i)
		if p, ok := zzConstOnly[name]; ok && p == i {
			a[i], b[i] = zzLit(v), zzLit(v)
			continue
		}
		if zz.Choice(2) == 0 {
			a[i] = zzLit(v)
			anyConst = true
			consts = append(consts, i)
		} else {
			a[i] = zzVar(i)
		}
	}
	zz.Assume(anyConst)
	sa, ea := f(a)
	sb, eb := f(b)
	if ea == nil && eb != nil && len(consts) > 1 {
		// the helper insists on a constant somewhere (e.g. the size of {bucketrange}): the all-variable
		// form does not exist, so compare with the form in which exactly one of a's constants is read from the match
		k := consts[zz.Choice(len(consts))]
		copy(b, a)
		b[k] = zzVar(k)
		sb, eb = f(b)
	}
	if ea == nil && eb == nil && sa != nil && sb != nil {
		ra, rb := sa(ctx), sb(ctx)
		zz.Assert(ra == rb, "a constant argument gives a different result than the same value read from the match")
		// and the merge condition of optimize(): a stage reported constant has that value on every context
		if c, ok := EvalStaticStage(sa); ok {
			zz.Assert(c == ra, "a stage reported as constant evaluates differently on a real context")
		}
	} else {
		zz.Assert(sa != nil || ea != nil, "constructor returned nothing")
	}
	zz.Reached()
}

// H10Probe: EvalStaticStage soundness for stages with all-constant arguments.
func H10Probe() {
	zzModes()
	names := zzFuncNames()
	name := names[zz.Choice(len(names))]
	zz.Note(name)
	if name == "@range" || name == "@for" {
		zz.LoopBound(zzLoopBoundGen)
	}
	f := StandardFunctions[name]
	n := zz.Choice(zzMaxArity + 1)
	a := make([]KeyBuilderStage, n)
	for i := 0; i < n; i++ {
		a[i] = zzLit(zzValue())
	}
	st, err := f(a)
	if st != nil && err == nil {
		c, ok := EvalStaticStage(st)
		ctx := &zzCtx{vals: []string{zz.String(1), zz.String(1)}, key: zz.String(1)}
		if ok {
			zz.Assert(st(ctx) == c, "a stage reported as constant evaluates differently on a real context")
		}
	}
	zz.Assert(st != nil || err != nil, "constructor returned nothing")
	zz.Reached()
}

// H10Opt: the same template compiled with and without optimisation evaluates
// to the same string on every context.
func H10Opt() {
	zzModes()
	names := []string{"sumi", "multi", "divi", "eq", "if", "coalesce", "$", "@", "bucket", "clamp", "substr", "lt", "maxi", "and", "not", "len", "repeat", "@join", "@map", "hi"}
	nm := names[zz.Choice(len(names))]
	zz.Note(nm)
	d1, d2 := zz.Byte(), zz.Byte()
	zz.Assume(d1 >= '0' && d1 <= '9')
	zz.Assume(d2 >= '0' && d2 <= '9')
	snippets := []string{"{0}", "{1}", string([]byte{d1}), "-" + string([]byte{d2}), "\"\"", "a", "{sumi 1 2}", "{sumi {0} 1}", "{k}"}
	t := string([]byte{d2}) + "{" + nm
	na := 1 + zz.Choice(zzMaxOptArgs)
	for i := 0; i < na; i++ {
		t += " " + snippets[zz.Choice(len(snippets))]
	}
	t += "}x{$ a b}"
	c1, e1 := NewStdKeyBuilderEx(true).Compile(t)
	c2, e2 := NewStdKeyBuilderEx(false).Compile(t)
	zz.Assert((e1 == nil) == (e2 == nil), "optimisation changes whether the template compiles")
	zz.Assert(c1 != nil && c2 != nil, "no builder")
	ctx := &zzCtx{vals: []string{zz.String(1), zz.IntStr(int64(zz.IntRange(-1000000, 1000000)))}, key: zz.String(1)}
	zz.Assert(c1.BuildKey(ctx) == c2.BuildKey(ctx), "optimised and unoptimised templates evaluate differently")
	zz.Assert(c1.StageCount() <= c2.StageCount(), "optimisation added stages")
	zz.Reached()
}

// H10Live: {time live} and {time delta} are not reported constant (so they
// are never frozen); {time now} is.
func H10Live() {
	kw := []string{"live", "delta", "LIVE", "Delta", "now"}[zz.Choice(5)]
	st, err := kfTimeParse([]KeyBuilderStage{zzLit(kw)})
	zz.Assert(err == nil && st != nil, "time keyword rejected")
	_, constant := EvalStaticStage(st)
	zz.Assert(constant == (kw == "now"), "{time live|delta} reported constant (would be frozen), or {time now} not")
	c, errs := NewStdKeyBuilderEx(true).Compile("{time " + kw + "}")
	zz.Assert(errs == nil && c != nil, "does not compile")
	_ = c.BuildKey(&zzCtx{})
	if kw == "now" {
		// {time now} is the time of compilation: a constant, so the folded and
		// the unfolded expression agree whenever they are evaluated
		cu, erru := NewStdKeyBuilderEx(false).Compile("{time now}")
		zz.Assert(erru == nil && cu != nil, "does not compile unoptimised")
		v1 := st(&zzCtx{})
		o1, u1 := c.BuildKey(&zzCtx{}), cu.BuildKey(&zzCtx{})
		zz.ClockAdvance() // the clock moves on by a second or more
		zz.Assert(st(&zzCtx{}) == v1, "{time now} changes between evaluations although it is reported constant")
		zz.Assert(c.BuildKey(&zzCtx{}) == o1 && cu.BuildKey(&zzCtx{}) == u1, "{time now}: optimised or unoptimised expression changes between evaluations")
	}
	zz.Reached()
}
