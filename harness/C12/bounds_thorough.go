package dissect

const (
	zzMaxTok   = 3
	zzMaxPre   = 2
	zzMaxLit   = 2
	zzMaxLine  = 5
	zzICTok    = 2
	zzICPre    = 1
	zzICLit    = 1
	zzICLine   = 4
	zzHoldTok  = 2
	zzHoldLine = 2
	zzIdxLit  = 3
	zzIdxLine = 6
)
