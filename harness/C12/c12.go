package dissect

// Harnesses for C12: dissect matching equals its specification; ignore-case
// only adds matches; earlier results are not altered by later matches.

import (
	zz "rare/pkg/zzverif"
)

var zzHarnesses = map[string]func(){"H12Match": H12Match, "H12ICase": H12ICase, "H12Errors": H12Errors, "H12Hold": H12Hold, "H12Index": H12Index}

type zzTok struct {
	name  string
	skip  int // 0 named, 1 %{}, 2 %{?name}
	until []byte
}

type zzPat struct {
	prefix []byte
	toks   []zzTok
}

func zzLiteral(n int) []byte {
	b := zz.Bytes(n)
	for _, c := range b {
		zz.Assume(c != '%')
	}
	return b
}

// zzGenPattern chooses a pattern structure with symbolic literal bytes.
func zzGenPattern(maxTok, maxLit int) zzPat {
	return zzGenPattern2(maxTok, maxLit, maxLit)
}

func zzGenPattern2(maxTok, maxPre, maxLit int) zzPat {
	var p zzPat
	p.prefix = zzLiteral(zz.Len(maxPre))
	nt := zz.Len(maxTok)
	names := []string{"a", "b", "c"}
	for i := 0; i < nt; i++ {
		t := zzTok{name: names[i], skip: zz.Choice(3)}
		if i == nt-1 {
			t.until = zzLiteral(zz.Len(maxLit))
		} else {
			t.until = zzLiteral(1 + zz.Len(maxLit-1))
		}
		p.toks = append(p.toks, t)
	}
	return p
}

func (p zzPat) String() string {
	s := string(p.prefix)
	for _, t := range p.toks {
		switch t.skip {
		case 0:
			s += "%{" + t.name + "}"
		case 1:
			s += "%{}"
		default:
			s += "%{?" + t.name + "}"
		}
		s += string(t.until)
	}
	return s
}

func zzIndex(s, sub []byte) int {
	for i := 0; i+len(sub) <= len(s); i++ {
		ok := true
		for j := range sub {
			if s[i+j] != sub[j] {
				ok = false
				break
			}
		}
		if ok {
			return i
		}
	}
	return -1
}

// zzSpec executes the specification literally.
func zzSpec(p zzPat, line []byte) []int {
	start := 0
	first := 0
	if len(p.prefix) > 0 {
		i := zzIndex(line, p.prefix)
		if i < 0 {
			return nil
		}
		first = i
		start = i + len(p.prefix)
	}
	ret := []int{first, 0}
	for _, t := range p.toks {
		end := len(line)
		if len(t.until) > 0 {
			j := zzIndex(line[start:], t.until)
			if j < 0 {
				return nil
			}
			end = start + j
		}
		if t.skip == 0 {
			ret = append(ret, start, end)
		}
		start = end + len(t.until)
	}
	ret[1] = start
	return ret
}

func zzSameInts(a, b []int) bool {
	if (a == nil) != (b == nil) || len(a) != len(b) {
		return false
	}
	for i := range a {
		if a[i] != b[i] {
			return false
		}
	}
	return true
}

func zzLowerASCII(b []byte) []byte {
	out := make([]byte, len(b))
	for i, c := range b {
		if c >= 'A' && c <= 'Z' {
			c += 'a' - 'A'
		}
		out[i] = c
	}
	return out
}

func (p zzPat) lower() zzPat {
	q := zzPat{prefix: zzLowerASCII(p.prefix)}
	for _, t := range p.toks {
		q.toks = append(q.toks, zzTok{name: t.name, skip: t.skip, until: zzLowerASCII(t.until)})
	}
	return q
}

func zzAllASCII(bs ...[]byte) bool {
	for _, b := range bs {
		for _, c := range b {
			if c >= 0x80 {
				return false
			}
		}
	}
	return true
}

func H12Match() {
	p := zzGenPattern2(zzMaxTok, zzMaxPre, zzMaxLit)
	line := zz.Bytes(zz.Len(zzMaxLine))
	orig := append([]byte{}, line...)
	expr := p.String()

	d, err := CompileEx(expr, false)
	zz.Assert(err == nil && d != nil, "well-formed pattern rejected")
	named := 0
	for _, t := range p.toks {
		if t.skip == 0 {
			named++
			zz.Assert(d.SubexpNameTable()[t.name] == named, "name table does not map the token name to its index")
		}
	}
	zz.Assert(len(d.SubexpNameTable()) == named, "name table has extra entries")

	got := d.CreateInstance().FindSubmatchIndex(line)
	want := zzSpec(p, orig)
	zz.Assert(zzSameInts(got, want), "case-sensitive result differs from the specification")
	if got != nil {
		zz.Assert(len(got) == 2*named+2, "result length is not 2*groups+2")
		zz.Assert(0 <= got[0] && got[0] <= got[1] && got[1] <= len(line), "{0} span not within the line")
		prev := got[0]
		for i := 2; i+1 < len(got); i += 2 {
			zz.Assert(prev <= got[i] && got[i] <= got[i+1] && got[i+1] <= got[1], "group offsets not ordered within {0}")
			prev = got[i+1]
		}
	}
	zz.Assert(zzEqualBytes(line, orig), "the line was modified by matching")
	zz.Reached()
}

func zzEqualBytes(a, b []byte) bool {
	if len(a) != len(b) {
		return false
	}
	for i := range a {
		if a[i] != b[i] {
			return false
		}
	}
	return true
}

// H12ICase: ignore-case only adds matches (any bytes); on ASCII input it
// equals the case-sensitive result on lower-cased pattern and line.
func H12ICase() {
	p := zzGenPattern2(zzICTok, zzICPre, zzICLit)
	line := zz.Bytes(zz.Len(zzICLine))
	orig := append([]byte{}, line...)
	expr := p.String()
	d, err := CompileEx(expr, false)
	zz.Assert(err == nil && d != nil, "well-formed pattern rejected")
	got := d.CreateInstance().FindSubmatchIndex(line)
	di, err := CompileEx(expr, true)
	zz.Assert(err == nil && di != nil, "well-formed pattern rejected with ignore-case")
	goti := di.CreateInstance().FindSubmatchIndex(line)
	if got != nil {
		zz.Assert(goti != nil, "line matches case-sensitively but not with ignore-case")
	}
	lits := [][]byte{orig, p.prefix}
	for _, t := range p.toks {
		lits = append(lits, t.until)
	}
	if zzAllASCII(lits...) {
		wanti := zzSpec(p.lower(), zzLowerASCII(orig))
		zz.Assert(zzSameInts(goti, wanti), "ignore-case result differs from case-sensitive result on lower-cased ASCII input")
	}
	zz.Reached()
}

// H12Errors: unclosed and adjacent tokens are compile errors.
func H12Errors() {
	pre := string(zzLiteral(zz.Len(2)))
	lit := string(zzLiteral(zz.Len(2)))
	switch zz.Choice(3) {
	case 0:
		// unclosed token: no '}' after the last "%{"
		name := zz.String(zz.Len(2))
		for i := 0; i < len(name); i++ {
			zz.Assume(name[i] != '}')
		}
		_, err := CompileEx(pre+"%{"+name, zz.Choice(2) == 1)
		zz.Assert(err == ErrorUnclosedToken, "unclosed token not reported")
	case 1:
		_, err := CompileEx(pre+"%{a}%{b}"+lit, zz.Choice(2) == 1)
		zz.Assert(err == ErrorSequentialToken, "adjacent tokens not reported")
	default:
		_, err := CompileEx(pre+"%{a}x%{a}"+lit, zz.Choice(2) == 1)
		zz.Assert(err == ErrorKeyConflict, "duplicate key not reported")
	}
	zz.Reached()
}

// H12Hold: results of earlier matches survive later matches on the same
// instance, across a pool refill (pool shrunk so that the refill happens).
func H12Hold() {
	p := zzGenPattern2(zzHoldTok, 1, 1)
	d, err := CompileEx(p.String(), false)
	zz.Assert(err == nil, "pattern rejected")
	inst := d.CreateInstance()
	// a pool that holds exactly one result: every later Get refills
	n := d.groupCount*2 + 2
	inst.groupPool = zzNewPool(n + zz.Choice(n))
	l1 := zz.Bytes(zz.Len(zzHoldLine))
	l2 := zz.Bytes(zz.Len(zzHoldLine))
	l3 := zz.Bytes(zz.Len(zzHoldLine))
	r1 := inst.FindSubmatchIndex(l1)
	var c1 []int
	if r1 != nil {
		c1 = append([]int{}, r1...)
	}
	r2 := inst.FindSubmatchIndex(l2)
	var c2 []int
	if r2 != nil {
		c2 = append([]int{}, r2...)
	}
	inst.FindSubmatchIndex(l3)
	zz.Assert(zzSameInts(r1, c1), "first result altered by later matches")
	zz.Assert(zzSameInts(r2, c2), "second result altered by later matches")
	zz.Reached()
}

// H12Index: the ignore-case search finds the FIRST position at which the
// (already lowered) literal occurs in the ASCII-folded line, for literals up
// to 3 bytes (self-overlapping ones such as "aab", "-->" included).
func H12Index() {
	sub := zz.Bytes(zz.Len(zzIdxLit))
	for i := range sub {
		zz.Assume(sub[i] < 'A' || sub[i] > 'Z') // the caller passes the lowered literal
	}
	s := zz.Bytes(zz.Len(zzIdxLine))
	low := zzLowerASCII(s)
	want := -1
	for i := 0; i+len(sub) <= len(low) && want < 0; i++ {
		ok := true
		for j := 0; j < len(sub); j++ {
			if low[i+j] != sub[j] {
				ok = false
			}
		}
		if ok {
			want = i
		}
	}
	zz.Assert(indexIgnoreCase(string(s), string(sub)) == want, "ignore-case search does not return the first occurrence of the literal in the folded line")
	zz.Reached()
}
