package dissect

import "rare/pkg/slicepool"

func zzNewPool(n int) *slicepool.IntPool { return slicepool.NewIntPool(n) }
