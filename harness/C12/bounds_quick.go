package dissect

const (
	zzMaxTok   = 2
	zzMaxPre   = 2
	zzMaxLit   = 2
	zzMaxLine  = 4
	zzICTok    = 1
	zzICPre    = 1
	zzICLit    = 1
	zzICLine   = 3
	zzHoldTok  = 1
	zzHoldLine = 2
	zzIdxLit  = 3
	zzIdxLine = 5
)
