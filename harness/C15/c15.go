package followreader

import (
	"errors"
	"github.com/fsnotify/fsnotify"
	"io"
	"io/fs"
	"os"
	"path/filepath"
	"time"

	zz "rare/pkg/zzverif"
)

var zzHarnesses = map[string]func(){"H15Poll": H15Poll, "H15Notify": H15Notify}

// ---- ghost file system (gosym: os.Open / Stat / (*os.File).Read,Seek,Close / time.Sleep are
// redirected here; natively the same actions are performed on a scratch directory) ----

type zzInode struct{ data []byte }

type zzHandle struct {
	f      *os.File
	ino    *zzInode
	pos    int
	closed bool
}

var (
	zzPath    string
	zzCur     *zzInode // inode the path names now (nil: no such file)
	zzHandles []*zzHandle
	zzPending []byte // bytes the environment appends during a later sleep
	zzPendAt  int    // ... namely the zzPendAt-th sleep from now
	zzDir     string
)

var zzDelay = 1 // the environment acts during the zzDelay-th poll sleep (drawn by the harness)

var zzErrNoEnt = errors.New("no such file")

type zzInfo struct{ size int64 }

func (i zzInfo) Name() string       { return "f" }
func (i zzInfo) Size() int64        { return i.size }
func (i zzInfo) Mode() fs.FileMode  { return 0o644 }
func (i zzInfo) ModTime() time.Time { return time.Time{} }
func (i zzInfo) IsDir() bool        { return false }
func (i zzInfo) Sys() any           { return nil }

func zzOpen(name string) (*os.File, error) {
	if name != zzPath || zzCur == nil {
		return nil, zzErrNoEnt
	}
	f := new(os.File)
	zzHandles = append(zzHandles, &zzHandle{f: f, ino: zzCur})
	return f, nil
}

func zzStat(name string) (os.FileInfo, error) {
	if name != zzPath || zzCur == nil {
		return nil, zzErrNoEnt
	}
	return zzInfo{int64(len(zzCur.data))}, nil
}

func zzH(f *os.File) *zzHandle {
	for _, h := range zzHandles {
		if h.f == f {
			return h
		}
	}
	zz.Assert(false, "file operation on a handle that was never opened (nil file?)")
	return nil
}

func zzFileRead(f *os.File, p []byte) (int, error) {
	h := zzH(f)
	if h.closed {
		return 0, os.ErrClosed
	}
	if h.pos >= len(h.ino.data) {
		return 0, io.EOF
	}
	n := copy(p, h.ino.data[h.pos:])
	h.pos += n
	return n, nil
}

func zzFileSeek(f *os.File, off int64, whence int) (int64, error) {
	h := zzH(f)
	switch whence {
	case io.SeekStart:
		h.pos = int(off)
	case io.SeekCurrent:
		h.pos += int(off)
	default:
		h.pos = len(h.ino.data) + int(off)
	}
	return int64(h.pos), nil
}

func zzFileClose(f *os.File) error {
	zzH(f).closed = true
	return nil
}

func zzSleep(d time.Duration) {
	if zzPending != nil && zzPendAt > 1 {
		zzPendAt--
		return
	}
	if zzPending != nil && zzCur != nil {
		zzCur.data = append(zzCur.data, zzPending...)
		zzPending = nil
	}
}

// ---- environment actions (both worlds) ----

func zzSetup(initial []byte) {
	zzHandles, zzPending = nil, nil
	zzPath = "f"
	if !zz.Symbolic() {
		zzDir, _ = os.MkdirTemp("", "zzc15")
		zzPath = filepath.Join(zzDir, "f")
		os.WriteFile(zzPath, initial, 0o644)
	}
	zzCur = &zzInode{data: append([]byte(nil), initial...)}
}

func zzAppend(b []byte) {
	zzCur.data = append(zzCur.data, b...)
	if !zz.Symbolic() {
		f, _ := os.OpenFile(zzPath, os.O_APPEND|os.O_WRONLY, 0o644)
		f.Write(b)
		f.Close()
	}
}

// the environment appends while the reader is waiting in its poll loop
func zzAppendLater(b []byte) {
	if zz.Symbolic() {
		zzPending = b
		zzPendAt = zzDelay
		return
	}
	go func() {
		time.Sleep(time.Duration(60*zzDelay) * time.Millisecond)
		f, _ := os.OpenFile(zzPath, os.O_APPEND|os.O_WRONLY, 0o644)
		f.Write(b)
		f.Close()
	}()
}

func zzRemove() {
	zzCur = nil
	if !zz.Symbolic() {
		os.Remove(zzPath)
	}
}

func zzCreate(b []byte) {
	zzCur = &zzInode{data: append([]byte(nil), b...)}
	if !zz.Symbolic() {
		os.WriteFile(zzPath, b, 0o644)
	}
}

func zzDone() {
	if zzDir != "" {
		os.RemoveAll(zzDir)
		zzDir = ""
	}
}

// H15Poll: the polling follow reader against a file that grows, is removed
// and re-created between and during reads: the bytes delivered are exactly
// the bytes appended after the start position, each once and in order; with
// --tail the content present at start is skipped; after removal plain follow
// ends the stream, re-open follow continues with the new file from its first byte.
func H15Poll() {
	initial := zz.Bytes(zz.Len(zzInit))
	zzSetup(initial)
	defer zzDone()
	reopen, tail := zz.Bool(), zz.Bool()
	zzDelay = 1 + zz.Choice(3)
	r, err := NewPolling(zzPath, reopen)
	zz.Assert(err == nil && r != nil, "cannot follow an existing file")
	r.PollDelay, r.ReadAttempts = time.Millisecond, 1+zz.Choice(2)
	var expect []byte // bytes that must still be delivered, in order
	if tail {
		zz.Assert(r.Drain() == nil, "drain failed")
	} else {
		expect = append(expect, initial...)
	}
	buf := make([]byte, zzBuf)
	deliver := func(what string) {
		for len(expect) > 0 {
			n, err := r.Read(buf)
			zz.Assert(err == nil && n > 0, "read failed or returned nothing although appended bytes are pending ("+what+")")
			zz.Assert(n <= len(expect), "more bytes delivered than were appended (duplicate delivery?) ("+what+")")
			for i := 0; i < n; i++ {
				zz.Assert(buf[i] == expect[i], "delivered bytes are not the appended bytes in order ("+what+")")
			}
			expect = expect[n:]
		}
	}
	steps := 1 + zz.Choice(zzSteps)
	removed := false
	for s := 0; s < steps && !removed; s++ {
		switch zz.Choice(3) {
		case 0: // append, then read it
			b := zz.Bytes(1 + zz.Choice(2))
			zzAppend(b)
			expect = append(expect, b...)
			deliver("append between reads")
		case 1: // the reader is caught up and waits; the file grows while it polls
			deliver("catching up")
			b := zz.Bytes(1 + zz.Choice(2))
			zzAppendLater(b)
			expect = append(expect, b...)
			deliver("append while polling")
		default: // removal once everything was delivered
			deliver("before removal")
			zzRemove()
			removed = true
			if !reopen {
				n, err := r.Read(buf)
				zz.Assert(n == 0 && err == io.EOF, "plain follow does not end the stream after the file was removed")
			} else {
				if zz.Bool() {
					b := zz.Bytes(1 + zz.Choice(2))
					// the poller tells a new file by its size; proviso of the statement: the new file is still
					// shorter than what was already delivered when the poller notices it
					zz.Assume(int64(len(b)) < r.readBytes)
					zzCreate(b)
					expect = append(expect, b...)
					deliver("after re-creation")
				} else if r.readBytes > 0 {
					// re-created empty (shorter than what was delivered), filled only some polls later - possibly
					// with more than was delivered before
					zzCreate(nil)
					b := zz.Bytes(1 + zz.Choice(3))
					// proviso of the statement: the poller notices the new file while it is still shorter than what was
					// delivered, i.e. the content arrives only after the first size check (one round of read attempts)
					zzDelay = r.ReadAttempts + 1 + zz.Choice(2)
					zzAppendLater(b)
					expect = append(expect, b...)
					deliver("after re-creation as an empty file")
				}
			}
		}
	}
	r.Close()
	n, err := r.Read(buf)
	zz.Assert(n == 0 && err == io.EOF, "a closed reader does not report EOF")
	zz.Reached()
}

// (*fsnotify.Watcher).Close under gosym: the reader is built without a watcher
func zzWatcherClose(w *fsnotify.Watcher) error { return nil }

// ---- notify reader ----
// Under gosym the reader is built directly (no inotify) and the harness plays
// the watcher goroutine: after each file action it raises the signal the real
// watcher raises for it, through the real writeSignalNonBlock (one-slot,
// coalescing). Natively the real watcher runs on the scratch directory.

func zzSignal(r *NotifyFollowReader, what string) {
	if !zz.Symbolic() {
		time.Sleep(60 * time.Millisecond) // let the kernel event reach the watcher goroutine
		return
	}
	switch what {
	case "write", "create":
		writeSignalNonBlock(r.eventWrite)
	case "remove":
		writeSignalNonBlock(r.eventDelete)
	}
}

// H15Notify: the notify follow reader against a file that grows, is removed
// after being drained and is re-created: appended bytes are delivered once
// and in order; after removal plain follow ends the stream - also when the
// path is re-created before the reader gets to the removal - while re-open
// follow continues with the new file from its first byte.
func H15Notify() {
	initial := zz.Bytes(zz.Len(zzInit))
	zzSetup(initial)
	defer zzDone()
	reopen, tail := zz.Bool(), zz.Bool()
	var r *NotifyFollowReader
	if zz.Symbolic() {
		zz.Concurrent(1, 0, 0) // a reader that waits for a signal nobody will raise is a deadlock, not an engine limit
		f, err := os.Open(zzPath)
		zz.Assert(err == nil, "cannot open the followed file")
		r = &NotifyFollowReader{filename: zzPath, f: f, ReOpen: reopen, eventWrite: make(chan struct{}, 1), eventDelete: make(chan struct{}, 1)}
	} else {
		var err error
		r, err = NewNotify(zzPath, reopen)
		zz.Assert(err == nil && r != nil, "cannot follow an existing file")
	}
	var expect []byte
	if tail {
		zz.Assert(r.Drain() == nil, "drain failed")
	} else {
		expect = append(expect, initial...)
	}
	buf := make([]byte, zzBuf)
	deliver := func(what string) {
		for len(expect) > 0 {
			n, err := r.Read(buf)
			zz.Assert(err == nil && n > 0, "read failed or returned nothing although appended bytes are pending ("+what+")")
			zz.Assert(n <= len(expect), "more bytes delivered than were appended ("+what+")")
			for i := 0; i < n; i++ {
				zz.Assert(buf[i] == expect[i], "delivered bytes are not the appended bytes in order ("+what+")")
			}
			expect = expect[n:]
		}
	}
	steps := 1 + zz.Choice(zzSteps)
	removed := false
	for s := 0; s < steps && !removed; s++ {
		if zz.Choice(2) == 0 {
			b := zz.Bytes(1 + zz.Choice(2))
			zzAppend(b)
			zzSignal(r, "write")
			expect = append(expect, b...)
			deliver("append")
			continue
		}
		deliver("before removal")
		zzRemove()
		zzSignal(r, "remove")
		removed = true
		recreated := zz.Bool()
		var nb []byte
		if recreated && reopen && zz.Bool() {
			// the file comes back only while the reader is already waiting (it has handled the removal with the path missing)
			nb = zz.Bytes(1 + zz.Choice(2))
			go func() {
				if !zz.Symbolic() {
					time.Sleep(150 * time.Millisecond)
				}
				zzCreate(nb)
				zzSignal(r, "create")
			}()
			expect = append(expect, nb...)
			deliver("after a later re-creation")
			continue
		}
		if recreated {
			nb = zz.Bytes(1 + zz.Choice(2))
			zzCreate(nb)
			zzSignal(r, "create")
		}
		if !reopen {
			n, err := r.Read(buf)
			zz.Assert(n == 0 && err == io.EOF, "plain follow does not end the stream after the file was removed")
		} else if recreated {
			expect = append(expect, nb...)
			deliver("after re-creation")
		}
	}
	zz.Reached()
}
