package followreader

const (
	zzInit  = 2
	zzSteps = 3
	zzBuf   = 2
)
