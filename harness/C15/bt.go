package followreader

const (
	zzInit  = 3
	zzSteps = 4
	zzBuf   = 2
)
