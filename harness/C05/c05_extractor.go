package extractor

import (
	"rare/pkg/matchers"
	"rare/pkg/matchers/dissect"

	zz "rare/pkg/zzverif"
)

var zzHarnesses = map[string]func(){"H05Workers": H05Workers}

// H05Workers (race freedom of the worker pool): two workers of the real
// extractor with the real dissect matcher (whose instances own an
// unsynchronised index pool) process two batches under every interleaving
// within the bound, watched by the happens-before monitor: no two workers
// touch the same matcher state, and both lines come out with their own keys.
func H05Workers() {
	d, err := dissect.Compile("%{a} %{b}")
	zz.Assert(err == nil, "dissect pattern rejected")
	nb := 2
	if !zz.Symbolic() {
		nb = 400 // native replay: enough work that both workers really take batches (the race detector needs both accesses to happen)
	}
	in := make(chan InputBatch, nb)
	for i := 0; i < nb; i += 2 {
		in <- InputBatch{Batch: []BString{BString("x y")}, Source: "s", BatchStart: 1}
		in <- InputBatch{Batch: []BString{BString("p q")}, Source: "s", BatchStart: 2}
	}
	close(in)
	zz.Concurrent(1, zzWorkerPreempt, 0)
	zz.RaceMonitor(true)
	e, err := New(in, &Config{Matcher: matchers.ToFactory(d), Extract: "{1}", Workers: 2})
	zz.Assert(err == nil, "extractor rejected")
	n := 0
	for mb := range e.ReadChan() {
		for _, m := range mb {
			want := "x"
			if m.LineNumber == 2 {
				want = "p"
			}
			zz.Assert(m.Extracted == want, "a match carries another line's capture")
			n++
		}
	}
	zz.Assert(n == nb && e.MatchedLines() == uint64(nb), "matches lost")
	zz.Reached()
}
