package helpers

import (
	"rare/pkg/extractor"
	"rare/pkg/matchers"
	"time"

	zz "rare/pkg/zzverif"
)

var zzHarnesses = map[string]func(){"H05Loop": H05Loop, "H05Sanity": H05Sanity}

// every line matches as a whole; the key is the line
type zzM struct{}

func (zzM) FindSubmatchIndex(b []byte) []int { return []int{0, len(b)} }
func (zzM) SubexpNameTable() map[string]int  { return nil }

type zzF struct{}

func (zzF) CreateInstance() matchers.Matcher { return zzM{} }

// the aggregator and the renderer record what the property talks about
type zzAgg struct {
	count    int
	sampling bool
	drawing  *bool
}

func (a *zzAgg) Sample(ele string) {
	zz.Assert(!*a.drawing, "a sample is added while a render is in progress (render not atomic)")
	a.sampling = true
	zz.Yield()
	a.count++
	a.sampling = false
}
func (a *zzAgg) ParseErrors() uint64 { return 0 }

// H05Loop: the real pipeline - producer, extractor.New with 1..2 workers,
// RunAggregationLoop with its render ticker - under every interleaving within
// the bounds: a render never overlaps a sample or another render, what a
// render displays never exceeds the matched-lines counter it shows next to
// it, the pipeline terminates, and the last render happens after the last
// sample and shows everything.
func H05Loop() {
	zz.Concurrent(zzLevel, zzPreempt, zzTimers)
	nb := 1 + zz.Choice(zzBatches)
	in := make(chan extractor.InputBatch, 1)
	go func() {
		for i := 0; i < nb; i++ {
			if i == nb-1 && !zz.Symbolic() {
				// native replay: let the last batch arrive and the input end while the first periodic render
				// (100 ms tick, ~30 ms long) is in progress
				time.Sleep(115 * time.Millisecond)
			}
			in <- extractor.InputBatch{Batch: []extractor.BString{extractor.BString("x")}, Source: "s", BatchStart: uint64(i + 1)}
		}
		close(in)
	}()
	ext, err := extractor.New(in, &extractor.Config{Matcher: zzF{}, Extract: "{0}", Workers: 1 + zz.Choice(zzWorkers)})
	zz.Assert(err == nil, "extractor rejected")
	drawing := false
	agg := &zzAgg{drawing: &drawing}
	renders, shownLast := 0, -1
	render := func() {
		zz.Assert(!agg.sampling, "a render starts while a sample is being added (render not atomic)")
		zz.Assert(!drawing, "two renders overlap")
		drawing = true
		shown := agg.count
		zz.Yield() // drawing takes time
		matched := ext.MatchedLines()
		zz.Assert(uint64(shown) <= matched, "a render shows more samples than the matched-lines total it reports")
		shownLast = agg.count
		renders++
		drawing = false
	}
	RunAggregationLoop(ext, agg, render)
	zz.Assert(agg.count == nb, "not every matched line was sampled exactly once")
	zz.Assert(renders >= 1 && shownLast == nb, "the final render does not show the complete result")
	zz.Assert(ext.MatchedLines() == uint64(nb) && ext.ReadLines() == uint64(nb), "counters differ from the true counts")
	zz.Yield()
	zz.Assert(!drawing, "a render is still in progress after the final render returned")
	zz.Reached()
}

// H05Sanity: the scheduler itself - two goroutines incrementing a shared
// counter without synchronisation can lose an update (the check must find
// that interleaving: reachability of the bad schedule), and with a
// rendezvous they cannot.
func H05Sanity() {
	zz.Concurrent(1, 2, 0)
	x := 0
	done := make(chan bool)
	lost := zz.Bool()
	for i := 0; i < 2; i++ {
		go func() {
			t := x
			if lost {
				zz.Yield()
			}
			x = t + 1
			done <- true
		}()
	}
	<-done
	<-done
	if !lost {
		zz.Assert(x == 2, "scheduler: an update was lost although the increments are atomic between visible operations")
	} else {
		zz.Assert(x >= 1 && x <= 2, "scheduler: impossible counter value")
		if x == 1 {
			zz.Note("lost update interleaving reached")
		}
	}
	zz.Reached()
}
