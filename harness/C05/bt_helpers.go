package helpers

const (
	zzLevel   = 2
	zzPreempt = 1
	zzTimers  = 1
	zzBatches = 3
	zzWorkers = 1
)
