package helpers

const (
	zzLevel   = 2
	zzPreempt = 2
	zzTimers  = 2
	zzBatches = 2
	zzWorkers = 2
)
