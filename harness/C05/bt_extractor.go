package extractor

const zzWorkerPreempt = 2
