package extractor

const zzWorkerPreempt = 1
