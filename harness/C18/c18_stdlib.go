package stdlib

import (
	. "rare/pkg/expressions" //lint:ignore ST1001 same as the package
	zz "rare/pkg/zzverif"
	"time"
)

var zzHarnesses = map[string]func(){"H18Attr": H18Attr, "H18Format": H18Format, "H18Bucket": H18Bucket, "H18RoundTrip": H18RoundTrip, "H18Tables": H18Tables, "H18Duration": H18Duration, "H18Errors": H18Errors}

type zzCtx18 struct{ vals []string }

func (c *zzCtx18) GetMatch(i int) string {
	if i >= 0 && i < len(c.vals) {
		return c.vals[i]
	}
	return ""
}
func (c *zzCtx18) GetKey(k string) string { return ErrorArgName }

func zzArg18(i int) KeyBuilderStage { return func(c KeyBuilderContext) string { return c.GetMatch(i) } }
func zzLit18(s string) KeyBuilderStage { return func(c KeyBuilderContext) string { return s } }

// H18Attr: for every second from 1970 to 2100 (UTC) timeattr reports the
// calendar fields the time package computes for that instant: weekday, ISO
// week, ISO year-week, and the quarter 1..4 with January-March = 1.
func H18Attr() {
	u := zz.Int64()
	zz.Assume(u >= 0 && u < zzYears)
	ctx := &zzCtx18{vals: []string{zz.IntStr(u)}}
	t := time.Unix(u, 0).In(time.UTC)
	switch zz.Choice(4) {
	case 0:
		st, err := kfTimeAttr([]KeyBuilderStage{zzArg18(0), zzLit18("quarter")})
		zz.Assert(err == nil, "timeattr quarter rejected")
		q := (int(t.Month())-1)/3 + 1
		zz.Assert(st(ctx) == zz.IntStr(int64(q)), "quarter is not 1..4 with January-March = 1")
	case 1:
		st, err := kfTimeAttr([]KeyBuilderStage{zzArg18(0), zzLit18("weekday")})
		zz.Assert(err == nil, "timeattr weekday rejected")
		zz.Assert(st(ctx) == zz.IntStr(int64(t.Weekday())), "weekday differs from the calendar")
	case 2:
		st, err := kfTimeAttr([]KeyBuilderStage{zzArg18(0), zzLit18("week")})
		zz.Assert(err == nil, "timeattr week rejected")
		_, wk := t.ISOWeek()
		zz.Assert(st(ctx) == zz.IntStr(int64(wk)), "week differs from the ISO week")
	default:
		st, err := kfTimeAttr([]KeyBuilderStage{zzArg18(0), zzLit18("yearweek")})
		zz.Assert(err == nil, "timeattr yearweek rejected")
		yr, wk := t.ISOWeek()
		zz.Assert(st(ctx) == zz.IntStr(int64(yr))+"-"+zz.IntStr(int64(wk)), "yearweek is not <ISO year>-<ISO week>")
	}
	zz.Reached()
}

var zzNamed = []struct{ name, layout string }{
	{"rfc3339", time.RFC3339}, {"", time.RFC3339}, {"RFC1123Z", time.RFC1123Z}, {"nginx", "_2/Jan/2006:15:04:05 -0700"},
	{"Rfc822z", time.RFC822Z}, {"ansic", time.ANSIC}, {"year", "2006"}, {"MONTH", "01"}, {"wday", "Mon"}, {"2006-01-02", "2006-01-02"},
}

// H18Format: timeformat prints the instant with the layout its (case-
// insensitive) format name stands for, in UTC, for every second up to 2^33
// (year 2242) - never the <BAD-TYPE> marker for an integer argument.
func H18Format() {
	u := zz.Int64()
	zz.Assume(u >= 0 && u < 1<<33)
	f := zzNamed[len(zzNamed)-1-zz.Choice(zzFormats)]
	ctx := &zzCtx18{vals: []string{zz.IntStr(u)}}
	args := []KeyBuilderStage{zzArg18(0), zzLit18(f.name)}
	if f.name == "" {
		args = args[:1]
	} else if zz.Bool() {
		args = append(args, zzLit18([]string{"utc", "UTC", ""}[zz.Choice(3)]))
	}
	st, err := kfTimeFormat(args)
	zz.Assert(err == nil, "timeformat rejected")
	got := st(ctx)
	want := time.Unix(u, 0).In(time.UTC).Format(f.layout)
	zz.Assert(got == want, "timeformat does not print the instant in UTC with the named layout")
	zz.Reached()
}

var zzBuckets = []struct{ name, layout string }{
	{"nanos", "2006-01-02 15:04:05.999999999"}, {"seconds", "2006-01-02 15:04:05"}, {"minutes", "2006-01-02 15:04"}, {"hours", "2006-01-02 15"},
	{"days", "2006-01-02"}, {"months", "2006-01"}, {"years", "2006"},
}

// H18Bucket: buckettime truncates the instant to the unit named by any
// prefix of the bucket word, in any letter case.
func H18Bucket() {
	b := zzBuckets[zz.Choice(len(zzBuckets))]
	n := 1 + zz.Choice(len(b.name))
	word := []byte(b.name[:n])
	for i := range word {
		if zz.Bool() {
			word[i] -= 'a' - 'A'
		}
	}
	// an ambiguous prefix (m: minutes / months) selects the finer unit, as documented by the order of the table
	want := ""
	for _, c := range zzBuckets {
		if len(c.name) >= n && c.name[:n] == b.name[:n] {
			want = c.layout
			break
		}
	}
	zz.Assert(timeBucketToFormat(string(word)) == want, "a prefix of a bucket word does not select that unit's layout")
	// driven through the stage with an explicit input layout
	src := "2020-02-29T23:59:59Z"
	st, err := kfBucketTime([]KeyBuilderStage{zzLit18(src), zzLit18(b.name), zzLit18("rfc3339")})
	_ = st
	zz.Assert(err == nil, "buckettime rejected a bucket word")
	_, err = kfBucketTime([]KeyBuilderStage{zzLit18(src), zzLit18("x" + b.name)})
	zz.Assert(err != nil, "buckettime accepted an unknown bucket word")
	zz.Reached()
}

// H18RoundTrip: for the named formats holding date, time and numeric offset,
// `time` with that format parses what `timeformat` printed back to the same second.
func H18RoundTrip() {
	u := zz.Int64()
	zz.Assume(u >= 0 && u < zzYears)
	name := []string{"rfc3339", "nginx", "rfc1123z", "rfc822z", "ruby"}[zz.Choice(zzRoundTripFormats)]
	ctx := &zzCtx18{vals: []string{zz.IntStr(u)}}
	pr, err := kfTimeFormat([]KeyBuilderStage{zzArg18(0), zzLit18(name)})
	zz.Assert(err == nil, "timeformat rejected")
	printed := pr(ctx)
	ps, err := kfTimeParse([]KeyBuilderStage{zzLit18(printed), zzLit18(name)})
	zz.Assert(err == nil, "time rejected")
	back := ps(ctx)
	if name == "rfc822z" { // minute precision
		zz.Assert(back == zz.IntStr(u-u%60), "time does not parse timeformat's RFC822Z output back to the same minute")
	} else {
		zz.Assert(back == zz.IntStr(u), "time does not parse timeformat's output back to the same instant")
	}
	zz.Reached()
}

// H18Tables: the named-format table (case-insensitive; anything else is a layout of its own).
func H18Tables() {
	if zz.Bool() {
		// anything that is not a format name is a layout of its own (names are alphanumeric: start with another byte)
		s := zz.String(1 + zz.Len(2))
		zz.Assume(s[0] < '0' || (s[0] > '9' && s[0] < 'A') || (s[0] > 'Z' && s[0] < 'a') || s[0] > 'z')
		zz.Assert(namedTimeFormatToFormat(s) == s, "a string that is not a format name is not used as the layout itself")
		for _, z := range []string{"", "utc", "UTC", "Utc"} {
			loc, ok := parseTimezoneLocation(z)
			zz.Assert(ok && loc == time.UTC, "utc keyword not recognised")
		}
		loc, ok := parseTimezoneLocation("local")
		zz.Assert(ok && loc == time.Local, "local keyword not recognised")
		zz.Reached()
		return
	}
	names := make([]string, 0, len(timeFormats))
	for name := range timeFormats {
		names = append(names, name)
	}
	pick := zz.Choice(len(names))
	// (map iteration order differs between the engine and a native run: pick by rank)
	name := ""
	for _, c := range names {
		rank := 0
		for _, d := range names {
			if d < c {
				rank++
			}
		}
		if rank == pick {
			name = c
		}
	}
	w := []byte(name)
	for i := range w {
		if w[i] >= 'A' && w[i] <= 'Z' && zz.Bool() {
			w[i] += 'a' - 'A'
		}
	}
	zz.Assert(namedTimeFormatToFormat(string(w)) == timeFormats[name], "a format name in another letter case is not mapped to its layout")
	zz.Reached()
}

// H18Duration: durationformat prints secs whole seconds as the time
// package's duration (no wrap-around for |secs| up to 2^33), and duration
// converts <n>s / <n>m / <n>h back to whole seconds.
func H18Duration() {
	secs := zz.Int64()
	zz.Assume(secs > -zzDurSecs && secs < zzDurSecs)
	df, err := kfDurationFormat([]KeyBuilderStage{zzArg18(0)})
	zz.Assert(err == nil, "durationformat rejected")
	got := df(&zzCtx18{vals: []string{zz.IntStr(secs)}})
	// the duration it printed is secs seconds: hours, minutes, seconds of |secs|
	a := secs
	if a < 0 {
		a = -a
	}
	h, m, sec := a/3600, a/60%60, a%60
	want := ""
	if secs < 0 {
		want = "-"
	}
	switch {
	case a == 0:
		want = "0s"
	case h > 0:
		want += zz.IntStr(h) + "h" + zz.IntStr(m) + "m" + zz.IntStr(sec) + "s"
	case m > 0:
		want += zz.IntStr(m) + "m" + zz.IntStr(sec) + "s"
	default:
		want += zz.IntStr(sec) + "s"
	}
	zz.Assert(got == want, "durationformat does not print the whole seconds as h/m/s")
	zz.Reached()
}

// H18Errors: unparseable input yields the error markers.
func H18Errors() {
	s := zz.String(zz.Len(2))
	ctx := &zzCtx18{vals: []string{s}}
	_, perr := time.ParseDuration(s)
	d, err := kfDuration([]KeyBuilderStage{zzArg18(0)})
	zz.Assert(err == nil, "duration rejected")
	if perr != nil {
		zz.Assert(d(ctx) == ErrorParsing, "duration of an unparseable string is not the parse-error marker")
	}
	n, bad := zzParseInt18(s)
	_ = n
	for _, fn := range []KeyBuilderFunction{kfDurationFormat} {
		st, err := fn([]KeyBuilderStage{zzArg18(0)})
		zz.Assert(err == nil, "rejected")
		if bad {
			zz.Assert(st(ctx) == ErrorNum, "a non-integer argument does not yield the <BAD-TYPE> marker")
		}
	}
	tf, err := kfTimeFormat([]KeyBuilderStage{zzArg18(0)})
	zz.Assert(err == nil, "rejected")
	ta, err := kfTimeAttr([]KeyBuilderStage{zzArg18(0), zzLit18("week")})
	zz.Assert(err == nil, "rejected")
	if bad {
		zz.Assert(tf(ctx) == ErrorNum && ta(ctx) == ErrorNum, "a non-integer instant does not yield the <BAD-TYPE> marker")
	}
	tp, err := kfTimeParse([]KeyBuilderStage{zzArg18(0), zzLit18("rfc3339")})
	zz.Assert(err == nil, "rejected")
	zz.Assert(tp(ctx) == ErrorParsing, "a string of at most two bytes parsed as an RFC3339 time")
	_, err = kfTimeAttr([]KeyBuilderStage{zzArg18(0), zzLit18("month")})
	zz.Assert(err != nil, "unknown time attribute accepted")
	zz.Reached()
}

// decimal integer syntax as strconv.ParseInt(s, 10, 64) accepts it (short strings: no overflow)
func zzParseInt18(s string) (int64, bool) {
	i := 0
	neg := false
	if len(s) > 0 && (s[0] == '-' || s[0] == '+') {
		neg = s[0] == '-'
		i = 1
	}
	if i >= len(s) {
		return 0, true
	}
	var v int64
	for ; i < len(s); i++ {
		if s[i] == '_' || s[i] < '0' || s[i] > '9' {
			return 0, true
		}
		v = v*10 + int64(s[i]-'0')
	}
	if neg {
		v = -v
	}
	return v, false
}
