package stdlib

const (
	zzYears            = 4102444800 // 2100-01-01T00:00:00Z
	zzRoundTripFormats = 2
	zzFormats          = 4
	zzDurSecs          = 70
)
