package readahead

// Harnesses for C04: line splitting is exact for every stream, buffer size
// and chunking; returned slices are never overwritten; a non-EOF error is
// reported once and ends the stream after all bytes before it were delivered.

import (
	"errors"
	"io"

	zz "rare/pkg/zzverif"
)

var zzHarnesses = map[string]func(){"H04Imm": H04Imm, "H04Buf": H04Buf}

var zzErrX = errors.New("zz read error")

// zzReader is the nondeterministic io.Reader: arbitrary chunking, stalls and
// an error (EOF or not) at the end of the delivered prefix.
type zzReader struct {
	data    []byte // the bytes that will be delivered (stream truncated at the error position)
	pos     int
	failure error // io.EOF or zzErrX
	zeros   int   // consecutive (0, nil) results so far
	maxZero int
	done    bool
	calls   int
}

func (r *zzReader) Read(p []byte) (int, error) {
	zz.Assert(!r.done, "reader called again after it returned an error")
	zz.Assert(len(p) > 0, "Read called with an empty buffer")
	r.calls++
	remaining := len(r.data) - r.pos
	max := remaining
	if len(p) < max {
		max = len(p)
	}
	n := zz.Choice(max + 1)
	copy(p, r.data[r.pos:r.pos+n])
	r.pos += n
	if n == 0 && r.pos < len(r.data) {
		r.zeros++
		zz.Assume(r.zeros <= r.maxZero)
		return 0, nil
	}
	if n > 0 {
		r.zeros = 0
	}
	if r.pos == len(r.data) {
		// everything delivered: the error may come with the last bytes or on a later call
		if zz.Choice(2) == 1 {
			r.done = true
			return n, r.failure
		}
		if n == 0 {
			r.zeros++
			zz.Assume(r.zeros <= r.maxZero)
		}
	}
	return n, nil
}

// zzRefLines is the specification: segments between '\n', one trailing '\r'
// removed from terminated lines, an unterminated non-empty tail is a line.
func zzRefLines(data []byte) [][]byte {
	var out [][]byte
	start := 0
	for i := 0; i < len(data); i++ {
		if data[i] == '\n' {
			line := data[start:i]
			if len(line) > 0 && line[len(line)-1] == '\r' {
				line = line[:len(line)-1]
			}
			out = append(out, line)
			start = i + 1
		}
	}
	if start < len(data) {
		out = append(out, data[start:])
	}
	return out
}

func zzEqual(a, b []byte) bool {
	if len(a) != len(b) {
		return false
	}
	for i := range a {
		if a[i] != b[i] {
			return false
		}
	}
	return true
}

func zzDrive(sc Scanner, rd *zzReader, orig []byte, maxTokens int) {
	errCalls := 0
	sc.OnError(func(e error) {
		errCalls++
		zz.Assert(e == zzErrX, "OnError called with a different error")
	})
	var toks [][]byte
	for sc.Scan() {
		toks = append(toks, sc.Bytes())
		zz.Assert(len(toks) <= maxTokens, "more tokens than bytes+1")
	}
	zz.Assert(!sc.Scan(), "Scan returns true again after returning false")
	want := zzRefLines(orig)
	zz.Assert(len(toks) == len(want), "number of lines differs from the specification")
	for i := range want {
		// compared after the last Scan: a token overwritten by later scanning shows here
		zz.Assert(zzEqual(toks[i], want[i]), "line content differs from the specification (or was overwritten)")
	}
	if rd.failure == zzErrX {
		zz.Assert(errCalls == 1, "non-EOF error not reported exactly once")
	} else {
		zz.Assert(errCalls == 0, "OnError called for EOF")
	}
	zz.Assert(rd.pos == len(rd.data) && rd.done, "stream not read to its end")
	zz.Reached()
}

func zzSetup(maxLen int) (*zzReader, []byte) {
	n := zz.Len(maxLen)
	data := zz.Bytes(n)
	orig := make([]byte, n)
	copy(orig, data)
	rd := &zzReader{data: data, failure: io.EOF, maxZero: 1}
	if zz.Bool() {
		rd.failure = zzErrX
	}
	return rd, orig
}

func H04Imm() {
	rd, orig := zzSetup(zzMaxLen)
	bufSize := 1 + zz.Choice(zzMaxBuf)
	zzDrive(NewImmediate(rd, bufSize), rd, orig, len(orig)+1)
}

func H04Buf() {
	rd, orig := zzSetup(zzMaxLen)
	bufSize := 2 + zz.Choice(zzMaxBuf)
	zzDrive(NewBuffered(rd, bufSize), rd, orig, len(orig)+1)
}
