package readahead

const (
	zzMaxLen = 6
	zzMaxBuf = 4
)
