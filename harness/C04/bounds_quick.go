package readahead

const (
	zzMaxLen = 4
	zzMaxBuf = 3
)
