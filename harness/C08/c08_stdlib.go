package stdlib

import (
	"sort"

	. "rare/pkg/expressions" //lint:ignore ST1001 same as the package
	zz "rare/pkg/zzverif"
)

var zzHarnesses = map[string]func(){"H08Fn": H08Fn, "H08Compile": H08Compile, "H08CompileCall": H08CompileCall, "H08Ctx": H08Ctx}

type zzCtx struct {
	vals []string
	key  string
}

func (c *zzCtx) GetMatch(i int) string {
	if i >= 0 && i < len(c.vals) {
		return c.vals[i]
	}
	return ""
}

func (c *zzCtx) GetKey(k string) string {
	if k == "k" {
		return c.key
	}
	return ErrorArgName
}

func zzArg(i int) KeyBuilderStage    { return func(c KeyBuilderContext) string { return c.GetMatch(i) } }
func zzLit(s string) KeyBuilderStage { return func(c KeyBuilderContext) string { return s } }

// zzOpaque: helpers whose body is a call into a library that the engine does
// not execute (reason given); they are outside the C08 claim.
var zzOpaque = map[string]string{
	"json":           "github.com/tidwall/gjson",
	"time":           "time / dateparse",
	"timeformat":     "time",
	"timeattr":       "time",
	"buckettime":     "time",
	"duration":       "time.ParseDuration",
	"durationformat": "time.Duration.String",
	"load":           "file I/O",
	"lookup":         "file I/O",
	"haskey":         "file I/O",
	"format":         "fmt.Sprintf with a user-supplied format",
}

func zzFuncNames() []string {
	var names []string
	for k := range StandardFunctions {
		if _, skip := zzOpaque[k]; !skip {
			names = append(names, k)
		}
	}
	sort.Strings(names)
	return names
}

// zzValue: one argument value. Kinds: empty, blank, an arbitrary int64
// rendering, an arbitrary float64 rendering, 1..2 arbitrary bytes.
func zzValue() string {
	switch zz.Choice(zzKinds) {
	case 0:
		return ""
	case 1:
		return zz.IntStr(zzInt())
	case 2:
		return zz.String(1)
	case 3:
		return zz.FloatStr(zz.Float64())
	case 4:
		return " "
	default:
		return zz.String(2)
	}
}

// zzInt: an arbitrary int64; the quick tier keeps the magnitudes that need
// 4..18 digits out (they only multiply the digit-count forks when a
// rendering is inspected byte by byte).
func zzInt() int64 {
	v := zz.Int64()
	if !zzAllInts {
		switch zz.Choice(3) {
		case 0:
			zz.Assume(v > -1000)
			zz.Assume(v < 1000)
		case 1:
			zz.Assume(v > 9223372036854775807-3)
		default:
			zz.Assume(v < -9223372036854775807+3)
		}
	}
	return v
}

// H08Fn: every helper, every arity, constant and context-bound arguments of
// every kind: the constructor returns, the stage returns, nothing panics.
func H08Fn() {
	zz.AbstractFloatText(true)
	zz.LoopBound(zzLoopBound)
	zz.AbstractFloatArith(true)
	zz.OpaqueParseFloat(true)
	names := zzFuncNames()
	name := names[zz.Choice(len(names))]
	if zzOnly != "" {
		name = zzOnly
	}
	zz.Note(name)
	if name == "@range" || name == "@for" {
		// sequence generators render every element: each iteration costs a digit-count fork per element
		zz.LoopBound(zzLoopBoundGen)
	}
	f := StandardFunctions[name]
	n := zz.Choice(zzMaxArity + 1)
	args := make([]KeyBuilderStage, n)
	ctx := &zzCtx{vals: make([]string, n), key: "v"}
	for i := range args {
		v := zzValue()
		if zz.Choice(2) == 0 {
			args[i] = zzLit(v)
		} else {
			ctx.vals[i] = v
			args[i] = zzArg(i)
		}
	}
	stage, err := f(args)
	zz.Assert(stage != nil || err != nil, "constructor returned neither a stage nor an error")
	if stage != nil {
		_ = stage(ctx)
	}
	zz.Reached()
}


// zzAlphabet: the bytes a template is drawn from: every syntactic class of
// the compiler and the argument splitter, a digit, a letter, helper-name
// characters, and one non-ASCII lead byte.
var zzAlphabet = []byte{'{', '}', '\\', '"', ' ', 'a', '1', '$', '@', '!', '-', 0xc3}

// H08Compile: compiling any template over the alphabet returns (a usable
// builder and/or errors) and evaluating the result returns; nothing panics.
func H08Compile() {
	zz.AbstractFloatText(true)
	zz.AbstractFloatArith(true)
	zz.OpaqueParseFloat(true)
	n := zz.Len(zzMaxTemplate)
	t := zz.Bytes(n)
	for i := range t {
		ok := false
		for _, c := range zzAlphabet {
			if t[i] == c {
				ok = true
			}
		}
		zz.Assume(ok)
	}
	zz.LoopBound(4 * zzMaxTemplate)
	kb := NewStdKeyBuilderEx(zz.Choice(2) == 0)
	c, errs := kb.Compile(string(t))
	zz.Assert(c != nil || errs != nil, "Compile returned neither a builder nor errors")
	if c != nil {
		ctx := &zzCtx{vals: []string{zz.String(1), zz.IntStr(zzInt())}, key: "v"}
		_ = c.BuildKey(ctx)
	}
	if errs != nil {
		zz.Assert(len(errs.Errors) > 0, "CompilerErrors without an error")
	}
	zz.Reached()
}

func zzAlpha(n int) []byte {
	t := zz.Bytes(n)
	for i := range t {
		ok := false
		for _, c := range zzAlphabet {
			if t[i] == c {
				ok = true
			}
		}
		zz.Assume(ok)
	}
	return t
}

// H08CompileCall: a helper call with arbitrary short arguments, compiled and
// evaluated through the real Compile (nested argument compilation, error
// inheritance, optimisation on and off).
func H08CompileCall() {
	zz.AbstractFloatText(true)
	zz.AbstractFloatArith(true)
	zz.OpaqueParseFloat(true)
	names := []string{"$", "sumi", "divi", "repeat", "!", "@for", "@map", "substr", "nosuchfn"}
	nm := names[zz.Choice(len(names))]
	zz.Note(nm)
	t := "{" + nm
	na := 1 + zz.Choice(zzMaxCallArgs)
	snippets := []string{"", "{0}", "{1}", "{k}", "a", "1", "-1", "0", "\"a b\"", "\"\"", "{", "}", "\\", "{$ {0} {1}}"}
	for i := 0; i < na; i++ {
		t += " " + snippets[zz.Choice(len(snippets))]
	}
	t += "}"
	zz.LoopBound(24)
	kb := NewStdKeyBuilderEx(zz.Choice(2) == 0)
	c, errs := kb.Compile(t)
	zz.Assert(c != nil || errs != nil, "Compile returned neither a builder nor errors")
	if c != nil {
		ctx := &zzCtx{vals: []string{zz.String(1), zz.IntStr(zz.Int64())}, key: "v"}
		_ = c.BuildKey(ctx)
	}
	zz.Reached()
}

// H08Ctx: the context implementations answer every index and key.
func H08Ctx() {
	i := zz.Int()
	arr := &KeyBuilderContextArray{Elements: []string{zz.String(1), zz.String(1)}}
	got := arr.GetMatch(i)
	want := ""
	if i >= 0 && i < 2 {
		want = arr.Elements[i]
	}
	zz.Assert(got == want, "KeyBuilderContextArray.GetMatch out of range is not empty")
	zz.Assert(arr.GetKey(zz.String(1)) == "", "missing key is not empty")
	zz.Reached()
}
