package stdlib

const (
	zzMaxArity     = 2
	zzKinds        = 3
	zzAllInts      = false
	zzOnly         = ""
	zzLoopBound    = 6
	zzLoopBoundGen = 2
	zzMaxTemplate  = 4
	zzMaxCallArgs  = 2
)
