package stdlib

const (
	zzMaxArity     = 3
	zzKinds        = 6
	zzAllInts      = true
	zzOnly         = ""
	zzLoopBound    = 8
	zzLoopBoundGen = 3
	zzMaxTemplate  = 5
	zzMaxCallArgs  = 3
)
