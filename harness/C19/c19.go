package stdmath

import (
	"math"
	"sort"

	zz "rare/pkg/zzverif"
)

var zzHarnesses = map[string]func(){"H19Ops": H19Ops, "H19Prec": H19Prec, "H19Const": H19Const, "H19Parse": H19Parse}

func zzOpNames() []string {
	var n []string
	for k := range ops {
		n = append(n, string(k))
	}
	sort.Strings(n)
	return n
}

func zzUniNames() []string {
	var n []string
	for k := range uniOps {
		n = append(n, string(k))
	}
	sort.Strings(n)
	return n
}

// zzF: an operand: the float64 image of any int64 (the integer operators
// convert back with int64(x)), the special values, two fractions, or (deep
// tier) any float64 bit pattern.
func zzF() float64 {
	inf := math.Inf(1)
	switch zz.Choice(zzOperandKinds) {
	case 0:
		return float64(zz.Int64())
	case 1:
		return inf - inf
	case 2:
		return inf
	case 3:
		return -inf
	case 4:
		return 0.5
	case 5:
		return -0.5
	}
	return zz.Float64()
}

// H19Ops: every binary and unary operator is total on float64 (no panic for
// any pair of operands, NaN and infinities included).
func H19Ops() {
	if zz.Choice(2) == 0 {
		names := zzOpNames()
		nm := names[zz.Choice(len(names))]
		zz.Note(nm)
		r := ops[OpCode(nm)](zzF(), zzF())
		zz.Assert(r == r || r != r, "operator returned")
	} else {
		names := zzUniNames()
		nm := names[zz.Choice(len(names))]
		zz.Note(nm)
		r := uniOps[OpCode(nm)](zzF())
		zz.Assert(r == r || r != r, "operator returned")
	}
	zz.Reached()
}

// ---- reference parser: common order of operations ----

type zzTok struct {
	kind int // 0 operand (index into vars), 1 binary op, 2 unary minus/not on the next operand, 3 group
	op   string
	v    int
	sub  []zzTok
}

type zzTree struct {
	op          string // "" leaf, "u-"/"u!" unary
	v           int
	left, right *zzTree
}

func zzLevel(op string) int {
	for i, set := range orderOfOps {
		for _, o := range set {
			if string(o) == op {
				return i
			}
		}
	}
	return -1
}

// zzParse: precedence climbing; equal levels associate to the left.
func zzParseExpr(toks []zzTok, pos *int, maxLevel int) *zzTree {
	left := zzParsePrimary(toks, pos)
	for *pos < len(toks) {
		t := toks[*pos]
		op := t.op
		if t.kind == 3 { // implied multiplication
			op = "*"
		} else if t.kind != 1 {
			break
		}
		lv := zzLevel(op)
		if lv >= maxLevel {
			break
		}
		if t.kind == 1 {
			*pos++
		}
		right := zzParseExpr(toks, pos, lv)
		left = &zzTree{op: op, left: left, right: right}
	}
	return left
}

func zzParsePrimary(toks []zzTok, pos *int) *zzTree {
	t := toks[*pos]
	*pos++
	switch t.kind {
	case 0:
		return &zzTree{v: t.v}
	case 2:
		return &zzTree{op: "u" + t.op, left: zzParsePrimary(toks, pos)}
	}
	p := 0
	return zzParseExpr(t.sub, &p, 100)
}

func zzSameTree(e Expr, t *zzTree) bool {
	switch x := e.(type) {
	case *exprIndexVar:
		return t.op == "" && x.idx == t.v
	case *exprUnary:
		if len(t.op) != 2 || t.op[0] != 'u' {
			return false
		}
		return zzSameTree(x.ex, t.left)
	case *exprBinary:
		return string(x.opCode) == t.op && zzSameTree(x.left, t.left) && zzSameTree(x.right, t.right)
	}
	return false
}

func zzPrintToks(toks []zzTok) string {
	s := ""
	for _, t := range toks {
		switch t.kind {
		case 0:
			s += "[" + string([]byte{byte('0' + t.v)}) + "]"
		case 1:
			s += zzSp() + t.op + zzSp()
		case 2:
			s += t.op
		case 3:
			s += "(" + zzPrintToks(t.sub) + ")"
		}
	}
	return s
}

var zzSpace string

func zzSp() string { return zzSpace }

// zzFormula: a chain of 2..(zzMaxOps+1) distinct variables joined by arbitrary
// binary operators, decorated in one place: nothing, a unary sign on one
// operand, or one operand replaced by a parenthesised pair (written with
// implied multiplication when the operator in front of it is "*").
func zzFormula() []zzTok {
	names := zzOpNames()
	nops := 1 + zz.Choice(zzMaxOps)
	var operands [][]zzTok
	for i := 0; i <= nops; i++ {
		operands = append(operands, []zzTok{{kind: 0, v: i}})
	}
	implied := false
	gpos := -1
	switch zz.Choice(4) {
	case 3:
		// a parenthesised pair whose first operand carries a unary sign: (-a op b)
		gpos = zz.Choice(nops + 1)
		inner := []zzTok{{kind: 2, op: []string{"-", "!"}[zz.Choice(2)]}, {kind: 0, v: gpos}, {kind: 1, op: names[zz.Choice(len(names))]}, {kind: 0, v: nops + 1}}
		operands[gpos] = []zzTok{{kind: 3, sub: inner}}
	case 1:
		pos := zz.Choice(nops + 1)
		operands[pos] = append([]zzTok{{kind: 2, op: []string{"-", "!"}[zz.Choice(2)]}}, operands[pos]...)
	case 2:
		gpos = zz.Choice(nops + 1)
		inner := []zzTok{{kind: 0, v: gpos}, {kind: 1, op: names[zz.Choice(len(names))]}, {kind: 0, v: nops + 1}}
		operands[gpos] = []zzTok{{kind: 3, sub: inner}}
		implied = zz.Choice(2) == 1
	}
	toks := operands[0]
	for i := 1; i <= nops; i++ {
		op := names[zz.Choice(len(names))]
		if implied && i == gpos {
			op = "*"
		} else {
			toks = append(toks, zzTok{kind: 1, op: op})
		}
		toks = append(toks, operands[i]...)
	}
	return toks
}

// H19Prec: a formula over distinct variables, every binary operator, unary
// minus/not, parentheses and implied multiplication compiles to the parse
// tree that common order of operations dictates.
func H19Prec() {
	zzSpace = []string{"", " "}[zz.Choice(2)]
	toks := zzFormula()
	text := zzPrintToks(toks)
	if !zz.Symbolic() {
		zz.Note(text)
	}
	e, err := Compile(text)
	zz.Assert(err == nil && e != nil, "a well-formed formula does not compile")
	p := 0
	want := zzParseExpr(toks, &p, 100)
	zz.Assert(p == len(toks), "reference parser did not consume the formula")
	zz.Assert(zzSameTree(e, want), "the compiled tree is not the parse under common order of operations")
	zz.Reached()
}

type zzBind struct{ vals []float64 }

func (b *zzBind) GetMatch(i int) float64 {
	if i >= 0 && i < len(b.vals) {
		return b.vals[i]
	}
	return 0
}
func (b *zzBind) GetKey(string) float64 { return 0 }

// H19Const: replacing variables by numeric constants of the same value (in
// decimal, 0x and 0b spellings) never changes the result: compile-time
// simplification is invisible.
func H19Const() {
	names := zzOpNames()
	op1 := names[zz.Choice(len(names))]
	names2 := []string{"+", "*", "%", "<<", "<", "&&", "^", "-"}
	op2 := names2[zz.Choice(zzConstOps2)]
	zz.Note(op1 + " " + op2)
	lits := []string{"0", "0x10", "0.1", "3", "16777217", "100"}[:zzConstLits]
	vals := []float64{0, 16, 0.1, 3, 16777217, 100}
	var idx [3]int
	var isConst [3]bool
	any := false
	for i := range idx {
		idx[i] = zz.Choice(len(lits))
		isConst[i] = zz.Choice(2) == 0
		any = any || isConst[i]
	}
	zz.Assume(any)
	term := func(i int, asConst bool) string {
		if asConst {
			return lits[idx[i]]
		}
		return "[" + string([]byte{byte('0' + i)}) + "]"
	}
	shape := zz.Choice(3)
	build := func(c [3]bool) string {
		a, b, d := term(0, c[0]), term(1, c[1]), term(2, c[2])
		switch shape {
		case 0:
			return a + " " + op1 + " " + b + " " + op2 + " " + d
		case 1:
			return "(" + a + " " + op1 + " " + b + ") " + op2 + " " + d
		}
		return a + " " + op1 + " abs(" + b + " " + op2 + " " + d + ")"
	}
	ev, err1 := Compile(build([3]bool{}))
	ec, err2 := Compile(build(isConst))
	zz.Assert(err1 == nil && err2 == nil, "formula does not compile")
	ctx := &zzBind{vals: []float64{vals[idx[0]], vals[idx[1]], vals[idx[2]]}}
	rv, rc := ev.Eval(ctx), ec.Eval(ctx)
	zz.Assert(rv == rc || (rv != rv && rc != rc), "a constant evaluates differently from a variable bound to the same value")
	zz.Reached()
}

// H19Parse: any text over the formula alphabet either compiles or is
// rejected with an error; neither the tokenizer, the parser nor the
// evaluation of the result panics.
func H19Parse() {
	n := zz.Len(zzMaxText)
	b := zz.Bytes(n)
	alphabet := []byte{'(', ')', '+', '*', '%', '<', '&', '-', '!', '1', '0', 'x', '[', ']', ' ', '.'}
	for i := range b {
		ok := false
		for _, c := range alphabet {
			if b[i] == c {
				ok = true
			}
		}
		zz.Assume(ok)
	}
	e, err := Compile(string(b))
	zz.Assert((e != nil) != (err != nil), "Compile must return exactly one of expression and error")
	if e != nil {
		_ = e.Eval(&zzBind{vals: []float64{zz.Float64()}})
	}
	zz.Reached()
}
