package stdmath

const (
	zzMaxOps       = 3
	zzMaxDepth     = 1
	zzMaxGroupOps  = 2
	zzMaxText      = 5
	zzOperandKinds = 7
	zzConstOps2    = 8
	zzConstLits    = 6
)
