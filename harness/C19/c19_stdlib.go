package stdlib

import (
	. "rare/pkg/expressions" //lint:ignore ST1001 same as the package
	zz "rare/pkg/zzverif"
)

var zzHarnesses = map[string]func(){"H19Kf": H19Kf}

type zzCtx19 struct {
	vals []string
	keys map[string]string
}

func (c *zzCtx19) GetMatch(i int) string {
	if i >= 0 && i < len(c.vals) {
		return c.vals[i]
	}
	return ""
}
func (c *zzCtx19) GetKey(k string) string { return c.keys[k] }

func zzMath(f string) KeyBuilderStage {
	st, err := kfMath([]KeyBuilderStage{func(KeyBuilderContext) string { return f }})
	zz.Assert(err == nil && st != nil, "formula rejected: "+f)
	return st
}

// H19Kf: through the {! ..} helper, a value reaches the formula unchanged
// whether it is bound by index ([0]), by name (x) or written as a constant.
func H19Kf() {
	switch zz.Choice(2) {
	case 0:
		// any float64 bound by index and by name gives the same result
		f := zz.Float64()
		txt := zz.FloatStr(f)
		ctx := &zzCtx19{vals: []string{txt}, keys: map[string]string{"x": txt}}
		ops := []string{" + 0", " * 1", " - 0"}
		op := ops[zz.Choice(len(ops))]
		zz.Assert(zzMath("[0]" + op)(ctx) == zzMath("x" + op)(ctx), "a named variable and an indexed variable bound to the same text give different results")
		// an unparsable binding is <BAD-TYPE> either way
		bad := &zzCtx19{vals: []string{"q"}, keys: map[string]string{"x": "q"}}
		zz.Assert(zzMath("[0]"+op)(bad) == ErrorNum && zzMath("x"+op)(bad) == ErrorNum, "an unparsable binding is not <BAD-TYPE>")
	case 1:
		// constants of several spellings (not representable in float32) vs variables bound to the same text
		lits := []string{"0.1", "16777217", "1e39", "123456.789", "16", "3"} // spellings both the formula and a binding accept
		l := lits[zz.Choice(len(lits))]
		forms := []string{"@ * 3", "@ + 0.2", "1 / @", "@ % 7", "-@"}
		fm := forms[zz.Choice(len(forms))]
		repl := func(with string) string {
			out := ""
			for i := 0; i < len(fm); i++ {
				if fm[i] == '@' {
					out += with
				} else {
					out += string([]byte{fm[i]})
				}
			}
			return out
		}
		ctx := &zzCtx19{vals: []string{l}, keys: map[string]string{"v": l}}
		want := zzMath(repl(l))(ctx)
		zz.Assert(zzMath(repl("[0]"))(ctx) == want, "a constant evaluates differently from an indexed variable bound to the same text")
		zz.Assert(zzMath(repl("v"))(ctx) == want, "a constant evaluates differently from a named variable bound to the same text")
	}
	zz.Reached()
}
