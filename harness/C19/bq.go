package stdmath

const (
	zzMaxOps       = 2
	zzMaxDepth     = 1
	zzMaxGroupOps  = 1
	zzMaxText      = 4
	zzOperandKinds = 6
	zzConstOps2    = 4
	zzConstLits    = 3
)
