package helpers

import (
	zz "rare/pkg/zzverif"

	"github.com/urfave/cli/v2"
)

var zzHarnesses = map[string]func(){"H03Exit": H03Exit}

type zzB struct{ n int }
type zzE struct{ n uint64 }
type zzA struct{ n uint64 }

func (b zzB) ReadErrors() int      { return b.n }
func (e zzE) MatchedLines() uint64 { return e.n }
func (a zzA) ParseErrors() uint64  { return a.n }

// H03Exit: the exit status is a function of (read errors, parse errors,
// matched lines) only: 2 if anything failed to read, else 2 if an increment
// failed to parse, else 1 if nothing matched, else 0.
func H03Exit() {
	re := zz.Int()
	zz.Assume(re >= 0)
	pe, ml := zz.Uint64(), zz.Uint64()
	var agg AggregationErrors
	hasAgg := zz.Bool()
	if hasAgg {
		agg = zzA{pe}
	}
	err := DetermineErrorState(zzB{re}, zzE{ml}, agg)
	code := 0
	if err != nil {
		ec, ok := err.(cli.ExitCoder)
		zz.Assert(ok, "error state is not an exit code")
		code = ec.ExitCode()
	}
	want := 0
	switch {
	case re > 0:
		want = 2
	case hasAgg && pe > 0:
		want = 2
	case ml == 0:
		want = 1
	}
	zz.Assert(code == want, "exit status does not follow read errors > parse errors > no match > ok")
	zz.Reached()
}
