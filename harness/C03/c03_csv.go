package csv

import (
	"rare/pkg/aggregation"
	zz "rare/pkg/zzverif"
)

var zzHarnesses = map[string]func(){"H03Csv": H03Csv}

// zzRec records what is handed to the CSV encoder (encoding/csv itself is the
// trusted RFC 4180 writer; rare's part is which records it writes).
type zzRec struct{ recs [][]string }

func (r *zzRec) Close() error { return nil }
func (r *zzRec) Write(rec []string) error {
	r.recs = append(r.recs, append([]string(nil), rec...))
	return nil
}
func (r *zzRec) WriteRow(data ...any) error {
	rec := make([]string, len(data))
	for i, v := range data {
		switch x := v.(type) {
		case string:
			rec[i] = x
		case int64:
			rec[i] = zz.IntStr(x)
		default:
			zz.Assert(false, "WriteRow given a value that is neither string nor int64")
		}
	}
	return r.Write(rec)
}

func zzKeyBytes() string {
	return zz.String(zz.Len(zzKeyLen))
}

// H03Csv: the CSV export holds a header and exactly one record per
// aggregated key with its aggregated numbers, whatever bytes the keys
// contain (quotes, commas, newlines, NUL-free here) - no key lost, none twice.
func H03Csv() {
	switch zz.Choice(3) {
	case 0:
		c := aggregation.NewCounter()
		k1, k2 := zzKeyBytes(), zzKeyBytes()
		v1, v2 := zz.Int64(), zz.Int64()
		c.SampleValue(k1, v1)
		c.SampleValue(k2, v2)
		var w zzRec
		zz.Assert(WriteCounter(&w, c) == nil, "WriteCounter failed")
		zz.Assert(len(w.recs) >= 1 && len(w.recs[0]) == 2 && w.recs[0][0] == "group" && w.recs[0][1] == "value", "counter CSV header")
		if k1 == k2 {
			zz.Assert(len(w.recs) == 2 && w.recs[1][0] == k1 && w.recs[1][1] == zz.IntStr(v1+v2), "counter CSV: one record with the summed count expected")
		} else {
			zz.Assert(len(w.recs) == 3, "counter CSV: one record per key expected")
			for _, kv := range []struct {
				k string
				v int64
			}{{k1, v1}, {k2, v2}} {
				n := 0
				for _, r := range w.recs[1:] {
					if len(r) == 2 && r[0] == kv.k && r[1] == zz.IntStr(kv.v) {
						n++
					}
				}
				zz.Assert(n == 1, "counter CSV: a key is missing, duplicated or carries another count")
			}
		}
	case 1:
		t := aggregation.NewTable("\x00")
		c1, c2, r1 := zzKeyBytes(), zzKeyBytes(), zzKeyBytes()
		v1, v2 := zz.Int64(), zz.Int64()
		t.SampleItem(c1, r1, v1)
		t.SampleItem(c2, r1, v2)
		var w zzRec
		zz.Assert(WriteTable(&w, t) == nil, "WriteTable failed")
		zz.Assert(len(w.recs) == 2, "table CSV: header and one record per row expected")
		hdr, row := w.recs[0], w.recs[1]
		zz.Assert(len(hdr) == len(row) && hdr[0] == "" && row[0] == r1, "table CSV: header/row shape")
		if c1 == c2 {
			zz.Assert(len(hdr) == 2 && hdr[1] == c1 && row[1] == zz.IntStr(v1+v2), "table CSV: merged column")
		} else {
			zz.Assert(len(hdr) == 3, "table CSV: one column per key expected")
			for i := 1; i < 3; i++ {
				if hdr[i] == c1 {
					zz.Assert(row[i] == zz.IntStr(v1), "table CSV: cell differs from the aggregated value")
				} else {
					zz.Assert(hdr[i] == c2 && row[i] == zz.IntStr(v2), "table CSV: cell differs from the aggregated value")
				}
			}
			zz.Assert(hdr[1] != hdr[2], "table CSV: a column twice")
		}
	default:
		s := aggregation.NewSubKeyCounter()
		k, s1, s2 := zzKeyBytes(), zzKeyBytes(), zzKeyBytes()
		v1, v2 := zz.Int64(), zz.Int64()
		s.SampleValue(k, s1, v1)
		s.SampleValue(k, s2, v2)
		var w zzRec
		zz.Assert(WriteSubCounter(&w, s) == nil, "WriteSubCounter failed")
		zz.Assert(len(w.recs) == 2 && w.recs[0][0] == "group" && w.recs[1][0] == k && len(w.recs[0]) == len(w.recs[1]), "sub-key CSV shape")
		hdr, row := w.recs[0], w.recs[1]
		if s1 == s2 {
			zz.Assert(len(hdr) == 2 && hdr[1] == s1 && row[1] == zz.IntStr(v1+v2), "sub-key CSV: merged sub-key")
		} else {
			zz.Assert(len(hdr) == 3 && hdr[1] != hdr[2], "sub-key CSV: one column per sub-key expected")
			for i := 1; i < 3; i++ {
				if hdr[i] == s1 {
					zz.Assert(row[i] == zz.IntStr(v1), "sub-key CSV: cell differs")
				} else {
					zz.Assert(hdr[i] == s2 && row[i] == zz.IntStr(v2), "sub-key CSV: cell differs")
				}
			}
		}
	}
	zz.Reached()
}
