package csv

const zzKeyLen = 2
