package csv

const zzKeyLen = 1
