package aggregation

import (
	zz "rare/pkg/zzverif"
)

var zzHarnesses = map[string]func(){"H03Elements": H03Elements, "H03Commute": H03Commute}

var zzParts = []string{"a", "b", "", "2", "-3", "x"}
var zzPartInt = []int64{0, 0, 0, 2, -3, 0}
var zzPartIsInt = []bool{false, false, false, true, true, false}

// H03Elements: what an extracted key of 1..4 NUL-separated elements means to
// each aggregator - the reference aggregation of the property: histogram:
// key = 1st element, increment = 2nd (1 when absent); bargraph: key,
// sub-key, increment = 3rd; table/heatmap/sparkline: column, row,
// increment = 3rd; surplus elements are ignored; a non-integer increment is
// a parse error and adds nothing.
func H03Elements() {
	n := 1 + zz.Choice(4)
	ids := make([]int, n)
	ele := ""
	for i := range ids {
		ids[i] = zz.Choice(len(zzParts))
		if i > 0 {
			ele += "\x00"
		}
		ele += zzParts[ids[i]]
	}
	part := func(i int) string {
		if i < n {
			return zzParts[ids[i]]
		}
		return ""
	}
	switch zz.Choice(3) {
	case 0:
		c := NewCounter()
		c.Sample(ele)
		inc, bad := int64(1), false
		if n >= 2 {
			inc, bad = zzPartInt[ids[1]], !zzPartIsInt[ids[1]]
		}
		if bad {
			zz.Assert(c.ParseErrors() == 1 && c.GroupCount() == 0 && c.Total() == 0, "histogram: a non-integer increment is not (only) a parse error")
		} else {
			items := c.Items()
			zz.Assert(c.ParseErrors() == 0 && len(items) == 1 && items[0].Name == part(0) && items[0].Item.Count() == inc && c.Total() == inc,
				"histogram: key is not the 1st element with the 2nd as increment (surplus elements ignored)")
		}
	case 1:
		c := NewSubKeyCounter()
		c.Sample(ele)
		inc, bad := int64(1), false
		if n >= 3 {
			inc, bad = zzPartInt[ids[2]], !zzPartIsInt[ids[2]]
		}
		if bad {
			zz.Assert(c.ParseErrors() == 1 && len(c.Items()) == 0, "bargraph: a non-integer increment is not (only) a parse error")
		} else {
			items := c.Items()
			sk := c.SubKeys()
			zz.Assert(c.ParseErrors() == 0 && len(items) == 1 && items[0].Name == part(0) && len(sk) == 1 && sk[0] == part(1) &&
				items[0].Item.Count() == inc && items[0].Item.Items()[0] == inc, "bargraph: key/sub-key/increment are not the 1st/2nd/3rd element")
		}
	default:
		t := NewTable("\x00")
		t.Sample(ele)
		inc, bad := int64(1), false
		if n >= 3 {
			inc, bad = zzPartInt[ids[2]], !zzPartIsInt[ids[2]]
		}
		if bad {
			zz.Assert(t.ParseErrors() == 1 && t.RowCount() == 0 && t.ColumnCount() == 0, "table: a non-integer increment is not (only) a parse error")
		} else {
			rows := t.Rows()
			zz.Assert(t.ParseErrors() == 0 && len(rows) == 1 && t.ColumnCount() == 1 && rows[0].Name() == part(1) && rows[0].Value(part(0)) == inc &&
				t.ColTotal(part(0)) == inc && t.Sum() == inc, "table: column/row/increment are not the 1st/2nd/3rd element")
		}
	}
	zz.Reached()
}

func zzK() string { return []string{"", "a", "b"}[zz.Choice(3)] }

// H03Commute: two adjacent samples commute in the table aggregator (the
// counter and sub-key counter are decided in C07's H07Order): with C01's
// "every line exactly once" this makes the final table independent of how
// lines are spread over workers, batches and readers.
func H03Commute() {
	c1, r1, c2, r2 := zzK(), zzK(), zzK(), zzK()
	i1, i2 := zz.Int64(), zz.Int64()
	pre := zzK()
	a, b := NewTable("\x00"), NewTable("\x00")
	a.SampleItem(pre, pre, 1)
	b.SampleItem(pre, pre, 1)
	a.SampleItem(c1, r1, i1)
	a.SampleItem(c2, r2, i2)
	b.SampleItem(c2, r2, i2)
	b.SampleItem(c1, r1, i1)
	zz.Assert(a.RowCount() == b.RowCount() && a.ColumnCount() == b.ColumnCount() && a.Sum() == b.Sum(), "table shape or sum differs with sample order")
	for _, k := range []string{"", "a", "b"} {
		zz.Assert(a.ColTotal(k) == b.ColTotal(k), "column totals differ with sample order")
		for _, ra := range a.Rows() {
			for _, rb := range b.Rows() {
				if ra.Name() == rb.Name() {
					zz.Assert(ra.Value(k) == rb.Value(k) && ra.Sum() == rb.Sum(), "cells differ with sample order")
				}
			}
		}
	}
	amin, amax := a.ComputeMinMax()
	bmin, bmax := b.ComputeMinMax()
	zz.Assert(amin == bmin && amax == bmax, "min/max differ with sample order")
	zz.Reached()
}
