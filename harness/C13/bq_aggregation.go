package aggregation

const zzItems13 = 3
