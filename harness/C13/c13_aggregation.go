package aggregation

import (
	"rare/pkg/aggregation/sorting"
	zz "rare/pkg/zzverif"
)

var zzHarnesses = map[string]func(){"H13Items": H13Items, "H13Table": H13Table}

var zzKeys13 = []string{"b", "a", "10", "9", "c"}

func zzSorter13() sorting.NameValueSorter {
	switch zz.Choice(3) {
	case 0:
		return sorting.NVNameSorter
	case 1:
		return sorting.NVValueSorter
	}
	return sorting.NVSmartSorter
}

// H13Items: whatever order the hash map hands the keys out in, the sorted
// item list is the one sequence the (total) sorter defines.
func H13Items() {
	less := zzSorter13()
	c := NewCounter()
	n := 2 + zz.Choice(zzItems13-1)
	for i := 0; i < n; i++ {
		c.SampleValue(zzKeys13[i], int64(zz.IntRange(-3, 3)))
	}
	zz.MapOrder(true)
	items := c.ItemsSortedBy(zzItems13+1, less)
	zz.MapOrder(false)
	zz.Assert(len(items) == n, "sorted items: wrong number of rows")
	for i := 0; i+1 < len(items); i++ {
		x := sorting.NameValuePair{Name: items[i].Name, Value: items[i].Item.Count()}
		y := sorting.NameValuePair{Name: items[i+1].Name, Value: items[i+1].Item.Count()}
		zz.Assert(less(x, y) && !less(y, x), "sorted items are not in the sorter's order (the row order follows map iteration)")
	}
	// the limit keeps the first rows of that sequence
	top := c.ItemsSortedBy(1, less)
	zz.Assert(len(top) == 1 && top[0].Name == items[0].Name, "limited item list is not a prefix of the sorted list")
	zz.Reached()
}

// H13Table: ordered rows and columns of the table aggregator.
func H13Table() {
	less := zzSorter13()
	t := NewTable("\x00")
	n := 2 + zz.Choice(zzItems13-1)
	for i := 0; i < n; i++ {
		t.SampleItem(zzKeys13[i], zzKeys13[(i+1)%n], int64(zz.IntRange(-3, 3)))
	}
	zz.MapOrder(true)
	cols := t.OrderedColumns(less)
	rows := t.OrderedRows(less)
	zz.MapOrder(false)
	zz.Assert(len(cols) == n && len(rows) == n, "ordered rows/columns: wrong count")
	for i := 0; i+1 < n; i++ {
		x := sorting.NameValuePair{Name: cols[i], Value: t.ColTotal(cols[i])}
		y := sorting.NameValuePair{Name: cols[i+1], Value: t.ColTotal(cols[i+1])}
		zz.Assert(less(x, y) && !less(y, x), "ordered columns are not in the sorter's order")
		rx := sorting.NameValuePair{Name: rows[i].Name(), Value: rows[i].Sum()}
		ry := sorting.NameValuePair{Name: rows[i+1].Name(), Value: rows[i+1].Sum()}
		zz.Assert(less(rx, ry) && !less(ry, rx), "ordered rows are not in the sorter's order")
	}
	zz.Reached()
}
