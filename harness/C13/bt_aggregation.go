package aggregation

const zzItems13 = 4
