package helpers

const (
	zzNameLen = 2
	zzNumLen  = 2
	zzModLen  = 7
)
