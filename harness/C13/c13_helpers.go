package helpers

import (
	"rare/pkg/aggregation/sorting"
	zz "rare/pkg/zzverif"
	"strconv"
)

var zzHarnesses = map[string]func(){"H13Text": H13Text, "H13Numeric": H13Numeric, "H13NumericAny": H13NumericAny, "H13Ctx": H13Ctx, "H13CtxHistory": H13CtxHistory,
	"H13Date": H13Date, "H13DateMixed": H13DateMixed, "H13Parse": H13Parse}

type zzNV = sorting.NameValuePair

// the documented modifiers; value sorts descending unless told otherwise
var zzMods = []string{"", ":asc", ":desc", ":reverse", ":rev", ":DESC"}

func zzSorter(mode string, m int) (sorting.NameValueSorter, bool) {
	s, err := BuildSorter(mode + zzMods[m])
	zz.Assert(err == nil && s != nil, "BuildSorter rejects a documented sort name/modifier")
	rev := mode == "value"
	switch m {
	case 1:
		rev = false
	case 2, 5:
		rev = true
	case 3, 4:
		rev = !rev
	}
	return s, rev
}

// zzLaws: the comparator axioms that make sort.Sort's result a function of
// the set of keys alone. All calls go to ONE sorter instance, as in a sort.
func zzLaws(less sorting.NameValueSorter, a, b, c zzNV) {
	ab, ba := less(a, b), less(b, a)
	zz.Assert(!ab || !ba, "a sorts before b and b before a")
	zz.Assert(ab || ba, "two distinct keys are tied: their order follows arrival order")
	bc, cb := less(b, c), less(c, b)
	zz.Assert(bc != cb, "two distinct keys are tied or ordered both ways (b,c)")
	ac, ca := less(a, c), less(c, a)
	zz.Assert(ac != ca, "two distinct keys are tied or ordered both ways (a,c)")
	// transitivity in every arrangement (the three keys may come from different sources)
	if ab && bc {
		zz.Assert(ac, "not transitive: a<b, b<c but not a<c")
	}
	if ac && cb {
		zz.Assert(ab, "not transitive: a<c, c<b but not a<b")
	}
	if ba && ac {
		zz.Assert(bc, "not transitive: b<a, a<c but not b<c")
	}
	if bc && ca {
		zz.Assert(ba, "not transitive: b<c, c<a but not b<a")
	}
	if ca && ab {
		zz.Assert(cb, "not transitive: c<a, a<b but not c<b")
	}
	if cb && ba {
		zz.Assert(ca, "not transitive: c<b, b<a but not c<a")
	}
	// asked again, the same pair is ordered the same way
	zz.Assert(less(a, b) == ab, "the same pair is ordered differently when asked again")
}

func zzDistinct(a, b, c string) {
	zz.Assume(a != b)
	zz.Assume(b != c)
	zz.Assume(a != c)
}

// H13Text: text and value orders (all modifiers) on arbitrary names and totals.
func H13Text() {
	mode := []string{"text", "value", ""}[zz.Choice(3)]
	less, rev := zzSorter(mode, zz.Choice(len(zzMods)))
	a := zzNV{zz.String(zz.Len(zzNameLen)), zz.Int64()}
	b := zzNV{zz.String(zz.Len(zzNameLen)), zz.Int64()}
	c := zzNV{zz.String(zz.Len(zzNameLen)), zz.Int64()}
	zzDistinct(a.Name, b.Name, c.Name)
	zzLaws(less, a, b, c)
	if mode == "value" {
		if a.Value != b.Value {
			zz.Assert(less(a, b) == ((a.Value < b.Value) != rev), "value: totals are not ordered by magnitude (larger first unless :asc)")
		}
	} else {
		zz.Assert(less(a, b) == ((a.Name < b.Name) != rev), "text: names are not in byte order (or the modifier is not applied)")
	}
	zz.Reached()
}

// zzNumStr: a short key over the characters that make up numbers in their
// several spellings, plus letters (so that mixtures of numbers and text occur).
func zzNumStr() string {
	n := 1 + zz.Choice(zzNumLen)
	b := make([]byte, n)
	for i := range b {
		c := zz.Byte()
		zz.Assume(c == '0' || c == '1' || c == '2' || c == '9' || c == '.' || c == '-' || c == '+' || c == 'e' || c == 'x' || c == 'a' || c == ' ')
		b[i] = c
	}
	return string(b)
}

var zzNumPool = []string{"0", "00", "1", "1.0", "10", "2", "-1", "1e1", "0x10", "1x", "a", "", " 1", ".5", "+1", "inf", "NaN", "-0", "1e", "9"}

// H13Numeric: the numeric order on mixtures of numbers (several spellings)
// and text: one key with arbitrary characters (parsed by the real
// strconv.ParseFloat, executed symbolically), two from a pool of spellings.
func H13Numeric() {
	less, rev := zzSorter("numeric", zz.Choice(2)*3)
	a, b, c := zzNV{zzNumStr(), 0}, zzNV{zzNumPool[zz.Choice(len(zzNumPool))], 0}, zzNV{zzNumPool[zz.Choice(len(zzNumPool))], 0}
	zzDistinct(a.Name, b.Name, c.Name)
	zzLaws(less, a, b, c)
	va, ea := strconv.ParseFloat(a.Name, 64)
	vb, eb := strconv.ParseFloat(b.Name, 64)
	if ea == nil && eb == nil && (va < vb || vb < va) { // NaN has no magnitude
		zz.Assert(less(a, b) == ((va < vb) != rev), "numeric: two numbers are not ordered by magnitude")
	}
	zz.Reached()
}

// H13NumericAny: the same laws for three keys of arbitrary bytes with
// strconv.ParseFloat abstracted to an arbitrary function of the key
// (any (value, ok) per distinct key: NaN, infinities, equal values included),
// so the laws are shown for whatever the library accepts as a number.
func H13NumericAny() {
	zz.OpaqueParseFloat(true)
	less, rev := zzSorter("numeric", zz.Choice(2)*3)
	a := zzNV{zz.String(zz.Len(zzNameLen)), zz.Int64()}
	b := zzNV{zz.String(zz.Len(zzNameLen)), zz.Int64()}
	c := zzNV{zz.String(zz.Len(zzNameLen)), zz.Int64()}
	zzDistinct(a.Name, b.Name, c.Name)
	zzLaws(less, a, b, c)
	va, ea := strconv.ParseFloat(a.Name, 64)
	vb, eb := strconv.ParseFloat(b.Name, 64)
	if ea == nil && eb == nil && (va < vb || vb < va) {
		zz.Assert(less(a, b) == ((va < vb) != rev), "numeric: two numbers are not ordered by magnitude")
	}
	zz.Reached()
}

var zzCtxPool = []string{"mon", "Monday", "TUE", "sun", "sat", "thurs", "wed", "jan", "January", "feb", "MAY", "dec", "sept", "10", "9", "x", "n", "Z", "1.0", "1"}
var zzCtxRank = []int{1, 1, 2, 0, 6, 4, 3, 100, 100, 101, 104, 111, 108, -1, -1, -1, -1, -1, -1, -1}

func zzCtxKey() (string, int) {
	i := zz.Choice(len(zzCtxPool))
	return zzCtxPool[i], zzCtxRank[i]
}

// H13Ctx: the contextual order on weekday names, month names, their
// abbreviations in any case, numbers and other text, in any mixture.
func H13Ctx() {
	less, rev := zzSorter([]string{"contextual", "context"}[zz.Choice(2)], zz.Choice(2)*3)
	an, ar := zzCtxKey()
	bn, br := zzCtxKey()
	cn, _ := zzCtxKey()
	zzDistinct(an, bn, cn)
	a, b, c := zzNV{an, 0}, zzNV{bn, 0}, zzNV{cn, 0}
	zzLaws(less, a, b, c)
	if ar >= 0 && br >= 0 && ar/100 == br/100 && ar != br {
		zz.Assert(less(a, b) == ((ar < br) != rev), "contextual: two weekday (or two month) names are not in calendar order")
	}
	zz.Reached()
}

// H13CtxHistory: what a sorter answered for earlier pairs never changes how a pair is ordered.
func H13CtxHistory() {
	mode := []string{"contextual", "numeric"}[zz.Choice(2)]
	fresh, _ := zzSorter(mode, 0)
	used, _ := zzSorter(mode, 0)
	hp := []string{"mon", "sun", "TUE", "jan", "dec", "x", "n", "10", "9"}
	an, bn, cn, dn := hp[zz.Choice(len(hp))], hp[zz.Choice(len(hp))], hp[zz.Choice(len(hp))], hp[zz.Choice(len(hp))]
	zz.Assume(an != bn)
	used(zzNV{cn, 1}, zzNV{dn, 2})
	zz.Assert(fresh(zzNV{an, 3}, zzNV{bn, 3}) == used(zzNV{an, 3}, zzNV{bn, 3}), "a pair is ordered differently after the sorter compared another pair")
	zz.Reached()
}

// Keys in one layout, pairwise different instants (sub-second differences included).
var zzDatePool = []string{"2019-01-02 10:00:00.250", "2019-01-02 10:00:00.750", "2018-12-31 23:59:59.000", "2019-01-02 10:00:01.000", "2020-02-29 00:00:00.000", "1999-07-04 12:30:00.500"}
var zzDateRank = []int{2, 3, 1, 4, 5, 0}

// H13Date: the date order on keys of one layout is chronological.
func H13Date() {
	less, rev := zzSorter("date", zz.Choice(2)*3)
	i, j, k := zz.Choice(len(zzDatePool)), zz.Choice(len(zzDatePool)), zz.Choice(len(zzDatePool))
	zz.Assume(i != j && j != k && i != k)
	a, b, c := zzNV{zzDatePool[i], 0}, zzNV{zzDatePool[j], 0}, zzNV{zzDatePool[k], 0}
	zzLaws(less, a, b, c)
	zz.Assert(less(a, b) == ((zzDateRank[i] < zzDateRank[j]) != rev), "date: two dates are not in chronological order")
	zz.Reached()
}

// Several layouts, month/weekday names and plain text next to dates.
var zzMixedPool = []string{"2019-01-02", "01/03/2019", "02/01/2018", "2019-01-04T03:04:05Z", "Jan 5 2019", "Feb 1 2018", "mon", "sun", "x", "12"}

// H13DateMixed: the date order (which falls back to contextual, then
// numeric/text) on mixtures still satisfies the comparator laws.
func H13DateMixed() {
	less, _ := zzSorter("date", 0)
	i, j, k := zz.Choice(len(zzMixedPool)), zz.Choice(len(zzMixedPool)), zz.Choice(len(zzMixedPool))
	zz.Assume(i != j && j != k && i != k)
	zzLaws(less, zzNV{zzMixedPool[i], 0}, zzNV{zzMixedPool[j], 0}, zzNV{zzMixedPool[k], 0})
	zz.Reached()
}

func zzLowerASCII(s string) string {
	b := []byte(s)
	for i, c := range b {
		if c >= 'A' && c <= 'Z' {
			b[i] = c + 32
		}
	}
	return string(b)
}

// H13Parse: name[:modifier] parsing: reverse flag truth table, unknown names and modifiers are errors.
func H13Parse() {
	names := []string{"text", "", "numeric", "contextual", "context", "date", "value", "VALUE", "Text", "bogus", "values"}
	ni := zz.Choice(len(names))
	name := names[ni]
	known := ni <= 8
	isValue := ni == 6 || ni == 7
	full := name
	wantRev, wantErr := isValue, false
	if zz.Bool() {
		mod := zz.String(zz.Len(zzModLen))
		for i := 0; i < len(mod); i++ {
			zz.Assume(mod[i] < 0x80 && mod[i] != ':')
		}
		full = name + ":" + mod
		switch zzLowerASCII(mod) {
		case "rev", "reverse":
			wantRev = !wantRev
		case "desc":
			wantRev = true
		case "asc":
			wantRev = false
		default:
			wantErr = true
		}
	}
	rn, rev, err := parseSort(full)
	zz.Assert((err != nil) == wantErr, "parseSort: modifier acceptance differs from {rev, reverse, desc, asc}")
	if !wantErr {
		zz.Assert(rev == wantRev && rn == zzLowerASCII(name), "parseSort: wrong reverse flag or name")
	}
	s, berr := BuildSorter(full)
	zz.Assert((berr != nil) == (wantErr || !known), "BuildSorter: accepts an unknown sort or rejects a documented one")
	if berr == nil {
		// the flag is applied: on two text keys the built sorter orders as the base order, reversed iff wantRev
		if ni <= 1 || ni == 8 {
			zz.Assert(s(zzNV{"a", 5}, zzNV{"b", 1}) == !wantRev, "BuildSorter does not apply the reverse flag")
		}
		if isValue {
			zz.Assert(s(zzNV{"a", 5}, zzNV{"b", 1}) == wantRev, "BuildSorter(value) does not apply the reverse flag")
		}
	}
	zz.Reached()
}
