package helpers

const (
	zzNameLen = 3
	zzNumLen  = 3
	zzModLen  = 8
)
