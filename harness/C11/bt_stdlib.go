package stdlib

const (
	zzMaxS      = 3
	zzCsvFields = 3
)
