package humanize

const zzHiMax = 100000000000
