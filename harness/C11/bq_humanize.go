package humanize

const zzHiMax = 1000000
