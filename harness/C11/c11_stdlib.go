package stdlib

import (
	"math"
	. "rare/pkg/expressions" //lint:ignore ST1001 same as the package
	zz "rare/pkg/zzverif"
)

var zzHarnesses = map[string]func(){"H11Bucket": H11Bucket, "H11BucketRange": H11BucketRange, "H11Clamp": H11Clamp, "H11ArithI": H11ArithI, "H11ArithBad": H11ArithBad,
	"H11Logic": H11Logic, "H11Cmp": H11Cmp, "H11Type": H11Type, "H11Str": H11Str, "H11Substr": H11Substr, "H11Csv": H11Csv, "H11ArithF": H11ArithF}

type zzCtx struct{ vals []string }

func (c *zzCtx) GetMatch(i int) string {
	if i >= 0 && i < len(c.vals) {
		return c.vals[i]
	}
	return ""
}
func (c *zzCtx) GetKey(k string) string { return ErrorArgName }

func zzArg(i int) KeyBuilderStage { return func(c KeyBuilderContext) string { return c.GetMatch(i) } }
func zzLit(s string) KeyBuilderStage { return func(c KeyBuilderContext) string { return s } }
func zzArgs(n int) []KeyBuilderStage {
	a := make([]KeyBuilderStage, n)
	for i := range a {
		a[i] = zzArg(i)
	}
	return a
}
func zzMust(st KeyBuilderStage, err error) KeyBuilderStage {
	zz.Assert(err == nil && st != nil, "stage constructor rejected admissible arguments")
	return st
}
func zzFn(name string, args []KeyBuilderStage) KeyBuilderStage {
	return zzMust(StandardFunctions[name](args))
}
func zzStr(max int) string { return zz.String(zz.Len(max)) }

// H11Bucket: bucket(v,s) is the multiple b of s with b <= v < b+s; bucketrange prints "b - b+s-1".
func H11Bucket() {
	v, s := zz.Int64(), zz.Int64()
	zz.Assume(s > 0)
	// the band where b or b+s is not representable is outside the claim
	zz.Assume(v >= math.MinInt64+s && v <= math.MaxInt64-s)
	q := v / s
	if v%s != 0 && v < 0 {
		q--
	}
	b := q * s
	ctx := &zzCtx{vals: []string{zz.IntStr(v)}}
	got := zzMust(kfBucket([]KeyBuilderStage{zzArg(0), zzLit(zz.IntStr(s))}))(ctx)
	zz.Assert(got == zz.IntStr(b), "bucket(v,s) is not the multiple b of s with b <= v < b+s")
	// a non-positive size is rejected at compile time
	_, err := kfBucket([]KeyBuilderStage{zzArg(0), zzLit(zz.IntStr(-s))})
	zz.Assert(err != nil, "bucket accepts a non-positive size")
	zz.Reached()
}

// H11BucketRange prints "b - b+s-1" (small magnitudes: the digits are materialised).
func H11BucketRange() {
	v, s := zz.IntRange(-120, 120), zz.IntRange(1, 30)
	q := v / s
	if v%s != 0 && v < 0 {
		q--
	}
	b := q * s
	r := zzMust(kfBucketRange([]KeyBuilderStage{zzArg(0), zzLit(zz.IntStr(int64(s)))}))(&zzCtx{vals: []string{zz.IntStr(int64(v))}})
	// parse "<int> - <int>"
	i := zzContainsAt(r, " - ")
	zz.Assert(i > 0, "bucketrange output has no ' - '")
	lo, bad1 := zzParseInt(r[:i])
	hi, bad2 := zzParseInt(r[i+3:])
	zz.Assert(!bad1 && !bad2 && lo == int64(b) && hi == int64(b+s-1), "bucketrange is not 'b - b+s-1'")
	zz.Reached()
}

func zzContainsAt(s, p string) int {
	for i := 0; i+len(p) <= len(s); i++ {
		if s[i:i+len(p)] == p {
			return i
		}
	}
	return -1
}

// H11Clamp returns the argument iff min <= v <= max, else the words min/max.
func H11Clamp() {
	v, lo, hi := zz.Int64(), zz.Int64(), zz.Int64()
	txt := zz.IntStr(v)
	got := zzMust(kfClamp([]KeyBuilderStage{zzArg(0), zzLit(zz.IntStr(lo)), zzLit(zz.IntStr(hi))}))(&zzCtx{vals: []string{txt}})
	switch {
	case v < lo:
		zz.Assert(got == "min", "clamp below min is not 'min'")
	case v > hi:
		zz.Assert(got == "max", "clamp above max is not 'max'")
	default:
		zz.Assert(got == txt, "clamp inside the range does not return the value")
	}
	bad := zzStr(2)
	_, perr := zzParseInt(bad)
	if perr {
		zz.Assert(zzMust(kfClamp([]KeyBuilderStage{zzArg(0), zzLit("1"), zzLit("2")}))(&zzCtx{vals: []string{bad}}) == ErrorNum, "clamp of a non-integer is not <BAD-TYPE>")
	}
	zz.Reached()
}

// zzParseInt: reference decimal integer syntax for short strings ([+-]?digits).
func zzParseInt(s string) (int64, bool) {
	i := 0
	neg := false
	if len(s) > 0 && (s[0] == '-' || s[0] == '+') {
		neg = s[0] == '-'
		i = 1
	}
	if i >= len(s) {
		return 0, true
	}
	var v int64
	for ; i < len(s); i++ {
		if s[i] < '0' || s[i] > '9' {
			return 0, true
		}
		v = v*10 + int64(s[i]-'0')
	}
	if neg {
		v = -v
	}
	return v, false
}

// H11ArithI: left fold with Go's wrap-around integer arithmetic.
func H11ArithI() {
	names := []string{"sumi", "subi", "multi", "divi", "modi", "maxi", "mini"}
	op := zz.Choice(len(names))
	n := 2 + zz.Choice(2)
	vals := make([]int, n)
	txt := make([]string, n)
	for i := range vals {
		vals[i] = zz.Int()
		txt[i] = zz.IntStr(int64(vals[i]))
	}
	acc := vals[0]
	for _, b := range vals[1:] {
		switch op {
		case 0:
			acc += b
		case 1:
			acc -= b
		case 2:
			acc *= b
		case 3:
			zz.Assume(b != 0)
			acc /= b
		case 4:
			zz.Assume(b != 0)
			acc %= b
		case 5:
			if b > acc {
				acc = b
			}
		case 6:
			if b < acc {
				acc = b
			}
		}
	}
	got := zzFn(names[op], zzArgs(n))(&zzCtx{vals: txt})
	zz.Assert(got == zz.IntStr(int64(acc)), "integer helper is not the left fold of its operator")
	zz.Reached()
}

// H11ArithBad: a non-integer argument yields the marker, never a number.
func H11ArithBad() {
	names := []string{"sumi", "subi", "multi", "divi", "modi", "maxi", "mini"}
	op := zz.Choice(len(names))
	bad := zzStr(2)
	_, isBad := zzParseInt(bad)
	zz.Assume(isBad)
	pos := zz.Choice(2)
	txt := []string{"7", "3"}
	txt[pos] = bad
	got := zzFn(names[op], zzArgs(2))(&zzCtx{vals: txt})
	zz.Assert(got == ErrorNum, "non-integer input does not yield <BAD-TYPE>")
	zz.Reached()
}

func zzTruthy(s string) bool {
	for i := 0; i < len(s); i++ {
		c := s[i]
		if !(c == ' ' || c == '\t' || c == '\n' || c == '\v' || c == '\f' || c == '\r' || c == 0x85 || c == 0xA0) {
			return true
		}
	}
	return false
}

func zzAscii(s string) {
	for i := 0; i < len(s); i++ {
		zz.Assume(s[i] < 0x80)
	}
}

// H11Logic: eq neq not and or if unless switch coalesce.
func H11Logic() {
	a, b, c := zzStr(zzMaxS), zzStr(zzMaxS), zzStr(1)
	zzAscii(a)
	zzAscii(b)
	zzAscii(c)
	ctx := &zzCtx{vals: []string{a, b, c}}
	tv := func(x bool) string {
		if x {
			return TruthyVal
		}
		return FalsyVal
	}
	switch zz.Choice(9) {
	case 0:
		zz.Assert(zzFn("eq", zzArgs(2))(ctx) == tv(a == b), "eq")
	case 1:
		zz.Assert(zzFn("neq", zzArgs(2))(ctx) == tv(a != b), "neq")
	case 2:
		zz.Assert(zzFn("not", zzArgs(1))(ctx) == tv(!zzTruthy(a)), "not")
	case 3:
		zz.Assert(zzFn("and", zzArgs(3))(ctx) == tv(zzTruthy(a) && zzTruthy(b) && zzTruthy(c)), "and: all arguments need to be truthy")
	case 4:
		zz.Assert(zzFn("or", zzArgs(3))(ctx) == tv(zzTruthy(a) || zzTruthy(b) || zzTruthy(c)), "or: at least one argument needs to be truthy")
	case 5:
		want := ""
		if zzTruthy(a) {
			want = b
		}
		zz.Assert(zzFn("if", zzArgs(2))(ctx) == want, "if without else")
		if !zzTruthy(a) {
			want = c
		}
		zz.Assert(zzFn("if", zzArgs(3))(ctx) == want, "if with else")
	case 6:
		want := b
		if zzTruthy(a) {
			want = ""
		}
		zz.Assert(zzFn("unless", zzArgs(2))(ctx) == want, "unless")
	case 7:
		// switch a b c  -> b if a truthy else c ; switch a b -> b or ""
		want := c
		if zzTruthy(a) {
			want = b
		}
		zz.Assert(zzFn("switch", zzArgs(3))(ctx) == want, "switch with else")
		if !zzTruthy(a) {
			want = ""
		}
		zz.Assert(zzFn("switch", zzArgs(2))(ctx) == want, "switch without else")
	default:
		want := a
		if want == "" {
			want = b
		}
		if want == "" {
			want = c
		}
		zz.Assert(zzFn("coalesce", zzArgs(3))(ctx) == want, "coalesce")
	}
	zz.Reached()
}

// H11Cmp: lt gt lte gte compare the parsed numbers (NaN, infinities and signed zero included).
func H11Cmp() {
	x, y := zz.Float64(), zz.Float64()
	ctx := &zzCtx{vals: []string{zz.FloatStr(x), zz.FloatStr(y)}}
	tv := func(b bool) string {
		if b {
			return TruthyVal
		}
		return FalsyVal
	}
	switch zz.Choice(4) {
	case 0:
		zz.Assert(zzFn("lt", zzArgs(2))(ctx) == tv(x < y), "lt")
	case 1:
		zz.Assert(zzFn("gt", zzArgs(2))(ctx) == tv(x > y), "gt")
	case 2:
		zz.Assert(zzFn("lte", zzArgs(2))(ctx) == tv(x <= y), "lte")
	default:
		zz.Assert(zzFn("gte", zzArgs(2))(ctx) == tv(x >= y), "gte")
	}
	// integers compare numerically, not as text
	a, b := zz.IntRange(-1000, 1000), zz.IntRange(-1000, 1000)
	ictx := &zzCtx{vals: []string{zz.IntStr(int64(a)), zz.IntStr(int64(b))}}
	zz.Assert(zzFn("lt", zzArgs(2))(ictx) == tv(a < b), "lt on integers")
	zz.Reached()
}

// H11Type: isint on integers of any magnitude and on short raw strings.
func H11Type() {
	if zz.Choice(2) == 0 {
		v := zz.Int64()
		ctx := &zzCtx{vals: []string{zz.IntStr(v)}}
		zz.Assert(zzFn("isint", zzArgs(1))(ctx) == TruthyVal, "isint of an integer is not truthy")
		zz.Assert(zzFn("isnum", zzArgs(1))(ctx) == TruthyVal, "isnum of an integer is not truthy")
	} else {
		s := zzStr(zzMaxS)
		_, bad := zzParseInt(s)
		got := zzFn("isint", zzArgs(1))(&zzCtx{vals: []string{s}})
		want := TruthyVal
		if bad {
			want = FalsyVal
		}
		zz.Assert(got == want, "isint disagrees with decimal integer syntax")
	}
	zz.Reached()
}

func zzHasPrefix(s, p string) bool { return len(s) >= len(p) && s[:len(p)] == p }
func zzHasSuffix(s, p string) bool { return len(s) >= len(p) && s[len(s)-len(p):] == p }
func zzContains(s, p string) bool {
	for i := 0; i+len(p) <= len(s); i++ {
		if s[i:i+len(p)] == p {
			return true
		}
	}
	return false
}

// H11Str: len prefix suffix like upper lower tab.
func H11Str() {
	a, b := zzStr(zzMaxS+1), zzStr(zzMaxS)
	ctx := &zzCtx{vals: []string{a, b}}
	pick := func(ok bool) string {
		if ok {
			return a
		}
		return ""
	}
	switch zz.Choice(6) {
	case 0:
		zz.Assert(zzFn("len", zzArgs(1))(ctx) == zz.IntStr(int64(len(a))), "len")
	case 1:
		zz.Assert(zzFn("prefix", zzArgs(2))(ctx) == pick(zzHasPrefix(a, b)), "prefix")
	case 2:
		zz.Assert(zzFn("suffix", zzArgs(2))(ctx) == pick(zzHasSuffix(a, b)), "suffix")
	case 3:
		zz.Assert(zzFn("like", zzArgs(2))(ctx) == pick(zzContains(a, b)), "like")
	case 4:
		zzAscii(a)
		up := []byte(a)
		lo := []byte(a)
		for i, c := range up {
			if c >= 'a' && c <= 'z' {
				up[i] = c - 32
			}
			if c >= 'A' && c <= 'Z' {
				lo[i] = c + 32
			}
		}
		zz.Assert(zzFn("upper", zzArgs(1))(ctx) == string(up), "upper")
		zz.Assert(zzFn("lower", zzArgs(1))(ctx) == string(lo), "lower")
	default:
		zz.Assert(zzFn("tab", zzArgs(2))(ctx) == a+"\t"+b, "tab")
	}
	zz.Reached()
}

// H11Substr: substr(s, pos, length) for every int position and length.
func H11Substr() {
	s := zzStr(zzMaxS + 1)
	pos, ln := zz.Int(), zz.Int()
	got := zzFn("substr", zzArgs(3))(&zzCtx{vals: []string{s, zz.IntStr(int64(pos)), zz.IntStr(int64(ln))}})
	n := len(s)
	if n == 0 {
		zz.Assert(got == "", "substr of the empty string")
		zz.Reached()
		return
	}
	if ln < 0 {
		ln = 0
	}
	l := pos
	if l < 0 {
		l += n
		if l < 0 {
			l = 0
		}
	} else if l > n {
		l = n
	}
	r := n
	if ln < n-l {
		r = l + ln
	}
	zz.Assert(got == s[l:r], "substr is not s[pos:pos+length] clipped to the string")
	zz.Reached()
}

// zzParseCSVRow: RFC 4180 row parser (one record, no trailing newline).
func zzParseCSVRow(s string) ([]string, bool) {
	var out []string
	i := 0
	for {
		f := []byte{}
		if i < len(s) && s[i] == '"' {
			i++
			for {
				if i >= len(s) {
					return nil, false
				}
				if s[i] == '"' {
					if i+1 < len(s) && s[i+1] == '"' {
						f = append(f, '"')
						i += 2
						continue
					}
					i++
					break
				}
				f = append(f, s[i])
				i++
			}
		} else {
			for i < len(s) && s[i] != ',' {
				if s[i] == '"' || s[i] == '\r' || s[i] == '\n' {
					return nil, false
				}
				f = append(f, s[i])
				i++
			}
		}
		out = append(out, string(f))
		if i >= len(s) {
			return out, true
		}
		if s[i] != ',' {
			return nil, false
		}
		i++
	}
}

// H11Csv: {csv ..} parses back to its arguments.
func H11Csv() {
	n := 1 + zz.Choice(zzCsvFields)
	vals := make([]string, n)
	for i := range vals {
		vals[i] = zzStr(zzMaxS)
		for j := 0; j < len(vals[i]); j++ {
			c := vals[i][j]
			zz.Assume(c == ',' || c == '"' || c == '\r' || c == '\n' || c == 'a' || c == ' ')
		}
	}
	got := zzFn("csv", zzArgs(n))(&zzCtx{vals: vals})
	back, ok := zzParseCSVRow(got)
	zz.Assert(ok, "{csv ..} output is not a valid RFC 4180 record")
	zz.Assert(len(back) == n, "{csv ..} parses back to a different number of fields")
	for i := range vals {
		zz.Assert(back[i] == vals[i], "{csv ..} field does not parse back to the argument")
	}
	zz.Reached()
}

// H11ArithF: sumf..divf parse both operands, apply the Go operator, format the result.
func H11ArithF() {
	x, y := zz.Float64(), zz.Float64()
	ctx := &zzCtx{vals: []string{zz.FloatStr(x), zz.FloatStr(y)}}
	switch zz.Choice(4) {
	case 0:
		zz.Assert(zzFn("sumf", zzArgs(2))(ctx) == zz.FloatStr(x+y), "sumf")
	case 1:
		zz.Assert(zzFn("subf", zzArgs(2))(ctx) == zz.FloatStr(x-y), "subf")
	case 2:
		zz.Assert(zzFn("multf", zzArgs(2))(ctx) == zz.FloatStr(x*y), "multf")
	default:
		zz.Assert(zzFn("divf", zzArgs(2))(ctx) == zz.FloatStr(x/y), "divf")
	}
	zz.Reached()
}
