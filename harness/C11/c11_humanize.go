package humanize

import (
	"math"
	zz "rare/pkg/zzverif"
)

var zzHarnesses = map[string]func(){"H11Hi": H11Hi}

// H11Hi: hi only inserts thousands separators: removing ',' gives the decimal
// rendering, and commas sit exactly every three digits from the right.
func H11Hi() {
	var v int64
	switch zz.Choice(3) {
	case 0:
		v = int64(zz.IntRange(-zzHiMax, zzHiMax))
	case 1:
		v = math.MinInt64 + int64(zz.IntRange(0, 20))
	default:
		v = math.MaxInt64 - int64(zz.IntRange(0, 20))
	}
	got := humanizeInt[int64](v)
	plain := zz.IntStr(v)
	var digits []byte
	for i := 0; i < len(got); i++ {
		if got[i] != ',' {
			digits = append(digits, got[i])
		}
	}
	zz.Assert(string(digits) == plain, "removing the separators from hi(v) does not give v")
	// comma positions
	nd := 0
	for i := len(got) - 1; i >= 0; i-- {
		c := got[i]
		if c == '-' {
			zz.Assert(i == 0, "sign not in front")
			continue
		}
		if nd == 3 {
			zz.Assert(c == ',', "missing thousands separator")
			nd = 0
			continue
		}
		zz.Assert(c >= '0' && c <= '9', "separator in the wrong place")
		nd++
	}
	zz.Assert(len(got) > 0 && got[0] != ',' && (len(got) < 2 || !(got[0] == '-' && got[1] == ',')), "leading separator")
	zz.Reached()
}
