package humanize

import (
	"math"
	zz "rare/pkg/zzverif"
)

var zzHarnesses = map[string]func(){"H11Hi": H11Hi, "H11Unit": H11Unit}

// H11Hi: hi only inserts thousands separators: removing ',' gives the decimal
// rendering, and commas sit exactly every three digits from the right.
func H11Hi() {
	var v int64
	switch zz.Choice(3) {
	case 0:
		v = int64(zz.IntRange(-zzHiMax, zzHiMax))
	case 1:
		v = math.MinInt64 + int64(zz.IntRange(0, 20))
	default:
		v = math.MaxInt64 - int64(zz.IntRange(0, 20))
	}
	got := humanizeInt[int64](v)
	plain := zz.IntStr(v)
	var digits []byte
	for i := 0; i < len(got); i++ {
		if got[i] != ',' {
			digits = append(digits, got[i])
		}
	}
	zz.Assert(string(digits) == plain, "removing the separators from hi(v) does not give v")
	// comma positions
	nd := 0
	for i := len(got) - 1; i >= 0; i-- {
		c := got[i]
		if c == '-' {
			zz.Assert(i == 0, "sign not in front")
			continue
		}
		if nd == 3 {
			zz.Assert(c == ',', "missing thousands separator")
			nd = 0
			continue
		}
		zz.Assert(c >= '0' && c <= '9', "separator in the wrong place")
		nd++
	}
	zz.Assert(len(got) > 0 && got[0] != ',' && (len(got) < 2 || !(got[0] == '-' && got[1] == ',')), "leading separator")
	zz.Reached()
}

func zzAbs(n int64) int64 {
	if n < 0 {
		return -n
	}
	return n
}

// H11Unit: downscale / bytesize pick the unit by magnitude: below one step
// the plain integer (with the base unit), from one step on a larger unit,
// and at the exact powers of the step (both signs) the unit of that power
// with mantissa 1.
func H11Unit() {
	units := unitSize[:]
	step := int64(1000)
	delim := ""
	kind := zz.Choice(3)
	call := func(n int64, prec int) string { return AlwaysDownscale(n, prec) }
	switch kind {
	case 1:
		units, delim = siSizes[:], " "
		call = func(n int64, prec int) string { return AlwaysByteSizeSi(uint64(n), prec) }
	case 2:
		units, delim, step = iecSizes[:], " ", 1024
		call = func(n int64, prec int) string { return AlwaysByteSize(uint64(n), prec) }
	}
	prec := zz.Choice(3)
	if zz.Choice(2) == 0 {
		// any magnitude: only the choice "base unit or not" is claimed (the mantissa is float formatting)
		zz.AbstractFloatText(true)
		zz.AbstractFloatArith(true)
		n := zz.Int64()
		zz.Assume(n > -(1<<53) && n < (1<<53))
		if kind != 0 {
			zz.Assume(n >= 0)
		}
		got := call(n, prec)
		base := delim + units[0]
		if zzAbs(n) < step {
			zz.Assert(got == zz.IntStr(n)+base, "a number below one step is not printed as the plain integer")
		} else {
			zz.Assert(len(got) > 0, "empty result")
			last := got[len(got)-1]
			isBase := last >= '0' && last <= '9'
			if kind != 0 {
				isBase = len(got) >= 2 && got[len(got)-2] == ' ' // "<n> B" / "<n> b": a one-letter unit
			}
			zz.Assert(!isBase, "a magnitude of one step or more is printed in the base unit")
		}
	} else {
		// exact powers of the step and their neighbours, both signs (concrete: float formatting is executed)
		k := 1 + zz.Choice(4)
		p := int64(1)
		for i := 0; i < k; i++ {
			p *= step
		}
		d := int64(zz.Choice(3)) - 1
		n := p + d
		if kind == 0 && zz.Choice(2) == 1 {
			n = -n
		}
		rank := k
		if zzAbs(n) < p {
			rank = k - 1
		}
		got := call(n, prec)
		suffix := delim + units[rank]
		zz.Assert(len(got) > len(suffix) && got[len(got)-len(suffix):] == suffix, "wrong unit at a power of the step")
		num := got[:len(got)-len(suffix)]
		zz.Assert(len(num) > 0 && (num[len(num)-1] >= '0' && num[len(num)-1] <= '9'), "unit not directly after the number")
		if d == 0 {
			want := "1"
			if n < 0 {
				want = "-1"
			}
			if prec > 0 {
				want += "." + "00"[:prec]
			}
			zz.Assert(num == want, "an exact power of the step is not 1 of its unit")
		}
	}
	zz.Reached()
}
