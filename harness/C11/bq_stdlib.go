package stdlib

const (
	zzMaxS      = 2
	zzCsvFields = 2
)
